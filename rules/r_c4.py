"""C4 ADAPTER-ARITH — Take / Limit bookkeeping (min, truncation, paired `limit -= x`), Chain order
(`b` is touched only once `a` is exhausted or fully accounted for), Reader / Writer transfer exactly
min(available, requested) and never fail."""
from .base import Result, RuleError
from .facts import callee
from .inline import inlined, views
from .flow import (ExprBuilder, cfg_of, edge_conditions, relations_at, normalize_cmp, enumerate_paths, return_expr,
                   walk, fmt_expr, canon)

BUF = "buf::buf_impl::Buf"
BUFMUT = "buf::buf_mut::BufMut"


def method_body(facts, trait, self_head, name):
    d = facts.find_impl_method(trait, self_head, name)
    return facts.by_did.get(d) if d is not None else None


def inherent_body(facts, head, name):
    """inherent method `name` of the ADT `head` (generic args in the def path ignored)"""
    l = [b for b in facts.bodies if b.kind == "assoc_fn" and b.id.startswith(head + "::<") and b.id.endswith(">::" + name)]
    l += facts.by_id.get("%s::%s" % (head, name), [])
    return l[0] if len(l) == 1 else None


def is_min_of(e, pred_a, pred_b):
    e = canon(e)
    if isinstance(e, tuple) and e[0] == "call" and e[1].rsplit("::", 1)[-1] == "min" and len(e[2]) == 2:
        x, y = e[2]
        return (pred_a(x) and pred_b(y)) or (pred_a(y) and pred_b(x))
    return False


def self_field(name):
    def p(e):
        e = canon(e)
        while isinstance(e, tuple) and e[0] in ("ref",):
            e = e[1]
        return e == ("field", ("deref", ("param", 1)), name) or e == ("field", ("param", 1), name)
    return p


def ucall_on(method, field):
    sf = self_field(field)

    def p(e):
        e = canon(e)
        return isinstance(e, tuple) and e[0] == "ucall" and e[1].rsplit("::", 1)[-1] == method and len(e[2]) >= 1 and sf(e[2][0])
    return p


def len_of(pred):
    def p(e):
        e = canon(e)
        return isinstance(e, tuple) and e[0] == "call" and e[1].rsplit("::", 1)[-1] == "len" and pred(strip_refs(e[2][0]))
    return p


def strip_refs(e):
    while isinstance(e, tuple) and e and e[0] in ("ref", "deref"):
        e = e[1]
    return e


def calls_in(b, facts):
    eb = ExprBuilder(b, facts, inline=False)
    out = []
    for bi, t in b.calls():
        fn = callee(t)
        if fn is None:
            continue
        loc = (bi, len(b.blocks[bi]["stmts"]))
        out.append((bi, fn, [eb.operand(a, loc) for a in t["args"]], t))
    return out


def field_writes(b, facts, fname):
    """assignments to (*self).<fname> : list of (bb, si, rhs expr)"""
    eb = ExprBuilder(b, facts, inline=False)
    out = []
    for bi, blk in enumerate(b.blocks):
        for si, s in enumerate(blk["stmts"]):
            if s["k"] == "assign" and s["pl"]["p"] and isinstance(s["pl"]["p"][-1], dict) and s["pl"]["p"][-1].get("n") == fname:
                if s["pl"]["l"] != 1:
                    # (*x).field with x a copy of self (a helper method inlined into this view)
                    base = canon(eb.place({"l": s["pl"]["l"], "p": s["pl"]["p"][:-1]}, (bi, si)))
                    if base not in (("deref", ("param", 1)), ("param", 1)):
                        continue
                out.append((bi, si, eb.rvalue(s["rv"], (bi, si), 0)))
    return out


def check_limit_adapter(res, facts, trait, head, tname, inner_rem, chunk_m, adv_m, extra=()):
    """Take (Buf) / Limit (BufMut): remaining = min(inner.remaining, limit); chunk truncated by
    min(chunk.len, limit); each inner consuming call with operand x is paired with limit -= x under x <= limit"""
    lim = self_field("limit")

    def decide(key, b, probs_fn, how):
        """judge the method as written; before reporting, judge the view with its crate-local helpers inlined"""
        if b is None:
            res.bad(key, "-", "method not found")
            return
        probs = probs_fn(b)
        note = ""
        if probs:
            for ib in views(facts, b):
                if not probs_fn(ib):
                    probs, note = [], " (with helpers inlined)"
                    break
        if probs:
            res.bad(key, b.loc(), "; ".join(probs))
        else:
            res.ok(key, b.loc(), how + note, nontrivial=True)

    # remaining
    def rem_probs(b):
        e = return_expr(b, facts, inline=False)
        if is_min_of(e, ucall_on(inner_rem, "inner"), lim):
            return []
        return ["is not min(inner.%s(), self.limit): %s" % (inner_rem, fmt_expr(e))]
    decide("%s::%s" % (tname, inner_rem), method_body(facts, trait, head, inner_rem), rem_probs, "min(inner.%s(), limit)" % inner_rem)

    # chunk
    def chunk_probs(b):
        e = canon(return_expr(b, facts, inline=False))
        e0 = strip_refs(e)
        if isinstance(e0, tuple) and e0[0] == "call" and e0[1].rsplit("::", 1)[-1] in ("index", "index_mut") and len(e0[2]) == 2:
            base, rng = e0[2]
            isch = ucall_on(chunk_m, "inner")
            if isch(strip_refs(base)) and isinstance(rng, tuple) and rng[0] == "agg" and "RangeTo" in str(rng[1]):
                end = rng[2][0]
                if is_min_of(end, len_of(isch), lim):
                    return []
        # `bytes.get(..limit).unwrap_or(bytes)`: the first `limit` bytes when there are that many, else all of them
        if isinstance(e0, tuple) and e0[0] == "call" and e0[1].rsplit("::", 1)[-1] == "unwrap_or" and len(e0[2]) == 2:
            g, dflt = strip_refs(canon(e0[2][0])), strip_refs(canon(e0[2][1]))
            isch = ucall_on(chunk_m, "inner")
            if isinstance(g, tuple) and g[0] == "call" and g[1].rsplit("::", 1)[-1] in ("get", "get_mut") and len(g[2]) == 2 \
                    and isch(strip_refs(g[2][0])) and strip_refs(g[2][0]) == dflt \
                    and isinstance(g[2][1], tuple) and g[2][1][0] == "agg" and "RangeTo" in str(g[2][1][1]) and "Inclusive" not in str(g[2][1][1]) \
                    and lim(g[2][1][2][0]):
                return []
        # `if self.limit < bytes.len() { &bytes[..self.limit] } else { bytes }`: decided per path - the prefix of length limit where limit <= len,
        # the whole chunk where len <= limit
        from .flow import enumerate_paths, PathExprBuilder, path_relations
        from .logic import Ctx
        isch = ucall_on(chunk_m, "inner")
        n_ok = 0
        for path in enumerate_paths(b, limit=200):
            pe = PathExprBuilder(b, facts, path, inline=False)
            v = strip_refs(canon(pe.local(0, (path[-1], len(b.blocks[path[-1]]["stmts"])))))
            rels = path_relations(b, facts, path)
            ctx = Ctx(b, path[0], facts, extra=rels)
            def get_limit(e):
                """e = chunk.get(..limit) / get_mut(..limit)"""
                e = strip_refs(canon(e))
                return isinstance(e, tuple) and e and e[0] == "call" and e[1].rsplit("::", 1)[-1] in ("get", "get_mut") and len(e[2]) == 2 and isch(strip_refs(e[2][0])) \
                    and isinstance(e[2][1], tuple) and e[2][1][0] == "agg" and "RangeTo" in str(e[2][1][1]) and "Inclusive" not in str(e[2][1][1]) and lim(canon(e[2][1][2][0]))
            # `match bytes.get(..limit) { Some(head) => head, None => bytes }`
            if isinstance(v, tuple) and v and v[0] == "field" and isinstance(v[1], tuple) and v[1] and v[1][0] == "variant" and v[1][2] == "Some" and get_limit(v[1][1]):
                n_ok += 1
                continue
            if isch(v) and any(r[0] in ("truth", "notin") and isinstance(r[1], tuple) and r[1] and r[1][0] == "discr" and get_limit(r[1][1]) and
                               ((r[0] == "truth" and r[2] == 0) or (r[0] == "notin" and 1 in tuple(r[2]))) for r in rels if r and len(r) > 2):
                n_ok += 1
                continue
            if isch(v):
                ln = ("call", "core::slice::<impl [T]>::len", (v,))
                if any(r[0] in ("le", "lt") and lim(canon(r[2])) and len_of(isch)(canon(r[1])) for r in rels if r and len(r) > 2 and isinstance(r[1], tuple) and isinstance(r[2], tuple)) \
                        or any(r[0] == "le" and len_of(isch)(canon(r[1])) and lim(canon(r[2])) for r in rels if r and len(r) > 2 and isinstance(r[1], tuple) and isinstance(r[2], tuple)):
                    n_ok += 1
                    continue
                return ["returns the whole inner chunk on a path where chunk.len() <= self.limit is not known: %s" % fmt_expr(e)]
            if isinstance(v, tuple) and v[0] == "call" and v[1].rsplit("::", 1)[-1] in ("index", "index_mut") and len(v[2]) == 2 and isch(strip_refs(v[2][0])):
                rng = v[2][1]
                if isinstance(rng, tuple) and rng[0] == "agg" and "RangeTo" in str(rng[1]) and "Inclusive" not in str(rng[1]):
                    end = canon(rng[2][0])
                    if is_min_of(end, len_of(isch), lim):
                        n_ok += 1
                        continue
                    if lim(end) and any(r[0] in ("lt", "le") and lim(canon(r[1])) and len_of(isch)(canon(r[2])) for r in rels if r and len(r) > 2 and isinstance(r[1], tuple) and isinstance(r[2], tuple)):
                        n_ok += 1
                        continue
            return ["chunk is not the inner chunk truncated to min(chunk.len(), self.limit): %s" % fmt_expr(e)]
        if n_ok:
            return []
        return ["chunk is not the inner chunk truncated to min(chunk.len(), self.limit): %s" % fmt_expr(e)]
    decide("%s::%s" % (tname, chunk_m), method_body(facts, trait, head, chunk_m), chunk_probs, "inner.%s()[..min(len, limit)]" % chunk_m)

    # consuming methods
    for m in (adv_m,) + tuple(extra):
        def cons_probs(b, m=m):
            probs = []
            cs = [c for c in calls_in(b, facts) if c[1].get("trait") == trait and c[1]["name"] == m and self_field("inner")(strip_refs(canon(c[2][0])))]
            if len(cs) != 1:
                probs.append("expected exactly one inner.%s call, found %d" % (m, len(cs)))
                return probs
            bi, fn, args, t = cs[0]
            x = canon(args[1])
            if x != ("param", 2):
                probs.append("inner.%s is not called with the method's own count" % m)
            rels = relations_at(b, bi, facts, inline=True)
            guarded = False
            for r in rels:
                if r[0] in ("le", "lt") and canon(r[1]) == x:
                    y = canon(r[2])
                    if lim(y) or is_min_of(y, lambda z: True, lim):
                        guarded = True
            if not guarded:
                probs.append("no dominating guard `cnt <= self.limit` (or <= remaining()) before inner.%s" % m)
            ws = field_writes(b, facts, "limit")
            okw = [w for w in ws if canon(w[2]) == ("bin", "Sub", ("field", ("deref", ("param", 1)), "limit"), x)]
            if len(ws) != 1 or len(okw) != 1:
                probs.append("`self.limit -= <same count>` missing or not the only write to limit (%d writes)" % len(ws))
            else:
                # the decrement must be on every returning path through the inner call
                cfg = cfg_of(b)
                wb = okw[0][0]
                if not (cfg.dominates(bi, wb) or cfg.dominates(wb, bi)):
                    probs.append("limit decrement and inner.%s are not on the same paths" % m)
                for path in enumerate_paths(b):
                    if (bi in path) != (wb in path):
                        probs.append("a returning path has inner.%s without the limit decrement (or vice versa)" % m)
                        break
            return probs
        decide("%s::%s" % (tname, m), method_body(facts, trait, head, m), cons_probs, "guard cnt <= limit; inner.%s(cnt); limit -= cnt on the same paths" % m)
    # every other method the adapter overrides: whatever it consumes through `inner` must be accounted for in `limit`
    # has_remaining / has_remaining_mut, when overridden, is `remaining() != 0` = both the limit and the inner buffer have something left
    has_m = "has_remaining" if inner_rem == "remaining" else "has_remaining_mut"
    hb = method_body(facts, trait, head, has_m)
    if hb is not None and hb.id.startswith("<" + head.split("<")[0]):
        def has_probs(b):
            from .flow import enumerate_paths, PathExprBuilder, path_relations
            # decided per path: `true` only where limit != 0 and inner.has_remaining() (or remaining() != 0) are known; `false` only where one of them fails
            is_has = ucall_on(has_m, "inner")
            is_rem = ucall_on(inner_rem, "inner")
            for path in enumerate_paths(b, limit=200):
                pe = PathExprBuilder(b, facts, path, inline=False)
                v = canon(pe.local(0, (path[-1], len(b.blocks[path[-1]]["stmts"]))))
                rels = [r for r in path_relations(b, facts, path) if r]
                lim_nz = any((r[0] == "ne" and lim(canon(r[1])) and canon(r[2]) == ("const", 0)) or (r[0] == "lt" and canon(r[1]) == ("const", 0) and lim(canon(r[2]))) for r in rels if len(r) > 2 and isinstance(r[1], tuple) and isinstance(r[2], tuple))
                lim_z = any(r[0] == "eq" and lim(canon(r[1])) and canon(r[2]) == ("const", 0) for r in rels if len(r) > 2 and isinstance(r[1], tuple) and isinstance(r[2], tuple))
                inner_yes = any(r[0] == "truth" and is_has(strip_refs(canon(r[1]))) and r[2] == 1 for r in rels) or \
                    any(r[0] in ("ne", "lt") and len(r) > 2 and isinstance(r[1], tuple) and isinstance(r[2], tuple) and
                        ((is_rem(strip_refs(canon(r[1]))) and canon(r[2]) == ("const", 0)) or (canon(r[1]) == ("const", 0) and is_rem(strip_refs(canon(r[2]))))) for r in rels)
                inner_no = any(r[0] == "truth" and is_has(strip_refs(canon(r[1]))) and r[2] == 0 for r in rels) or \
                    any(r[0] in ("eq", "le") and len(r) > 2 and isinstance(r[1], tuple) and is_rem(strip_refs(canon(r[1]))) and canon(r[2]) == ("const", 0) for r in rels)
                lim_z = lim_z or any(r[0] == "le" and len(r) > 2 and isinstance(r[1], tuple) and lim(canon(r[1])) and canon(r[2]) == ("const", 0) for r in rels)
                if isinstance(v, tuple) and v and v[0] == "const":
                    if v[1] in (1, True) and not (lim_nz and inner_yes):
                        return ["answers true on a path where `limit != 0` and `inner.%s()` are not both known" % has_m]
                    if v[1] in (0, False) and not (lim_z or inner_no):
                        return ["answers false on a path where neither `limit == 0` nor an exhausted inner buffer is known"]
                    continue
                # a computed answer: it must be the inner answer under limit != 0, or a comparison of remaining() / min(..) with 0
                sv = strip_refs(v)
                if is_has(sv) and lim_nz:
                    continue

                def nonzero_test(e, pred):
                    return isinstance(e, tuple) and e and e[0] == "bin" and ((e[1] in ("Ne", "Gt") and pred(strip_refs(canon(e[2]))) and canon(e[3]) == ("const", 0)) or
                                                                          (e[1] in ("Ne", "Lt") and canon(e[2]) == ("const", 0) and pred(strip_refs(canon(e[3])))))
                # the other conjunct, computed: `limit > 0` where the inner buffer is known to have bytes, `inner.remaining() > 0` where limit != 0 is known
                if inner_yes and nonzero_test(sv, lim):
                    continue
                if lim_nz and nonzero_test(sv, is_rem):
                    continue
                if isinstance(sv, tuple) and sv[0] == "bin" and sv[1] in ("Ne", "Gt", "Lt") and any(is_min_of(canon(x), ucall_on(inner_rem, "inner"), lim) or
                        (isinstance(x, tuple) and x[0] in ("call", "ucall") and str(x[1]).rsplit("::", 1)[-1] == inner_rem and strip_refs(canon(x[2][0])) in (("param", 1), ("deref", ("param", 1)))) for x in (sv[2], sv[3])):
                    continue
                return ["is not `limit != 0 && inner.%s()` / `remaining() != 0`: %s" % (has_m, fmt_expr(v)[:80])]
            return []
        decide("%s::%s" % (tname, has_m), hb, has_probs, "true exactly where limit != 0 and the inner buffer has bytes left")
    known = {inner_rem, chunk_m, adv_m, "chunks_vectored", has_m} | set(extra)
    NON_CONSUMING = {"remaining", "chunk", "has_remaining", "chunks_vectored", "remaining_mut", "chunk_mut", "has_remaining_mut"}
    AMOUNT = {"advance": ("arg", 1), "advance_mut": ("arg", 1), "copy_to_bytes": ("arg", 1), "put_bytes": ("arg", 2),
              "put_slice": ("len", 1), "copy_to_slice": ("len", 1), "try_copy_to_slice": ("len", 1)}
    for im in facts.impls:
        if im.get("trait") != trait or im["self_ty"].split("<", 1)[0] != head.split("<", 1)[0]:
            continue
        for it in im["items"]:
            if it["name"] in known or it.get("did") is None or it["did"] not in facts.by_did:
                continue

            def other_probs(b):
                probs = []
                cs = [c for c in calls_in(b, facts) if c[1].get("trait") == trait and c[1]["name"] not in NON_CONSUMING
                      and c[2] and self_field("inner")(strip_refs(canon(c[2][0])))]
                if not cs:
                    return probs
                ws = field_writes(b, facts, "limit")
                cfg = cfg_of(b)
                for (bi, fn, args, t) in cs:
                    m = fn["name"]
                    how = AMOUNT.get(m)
                    if how is None or len(args) <= how[1]:
                        probs.append("consumes through inner.%s, whose byte count this rule cannot account for in `limit`" % m)
                        continue
                    x = canon(args[how[1]])
                    if how[0] == "len":
                        x = ("call", "core::slice::<impl [T]>::len", (x,))
                    xs = (canon(x), canon(("call", "core::slice::<impl [T]>::len", (strip_refs(x[2][0]),))) if how[0] == "len" else canon(x))
                    rels = relations_at(b, bi, facts, inline=True)
                    guarded = any(r[0] in ("le", "lt") and canon(r[1]) in xs and (lim(canon(r[2])) or is_min_of(canon(r[2]), lambda z: True, lim)) for r in rels)

                    def clamped(e, d=0):
                        # min(.., self.limit, ..), nested as one likes: bounded by the limit by construction
                        e = canon(e)
                        return d < 4 and isinstance(e, tuple) and e and e[0] == "call" and e[1].rsplit("::", 1)[-1] == "min" and len(e[2]) == 2 and \
                            any(lim(canon(a)) or clamped(a, d + 1) for a in e[2])
                    guarded = guarded or any(clamped(x_) for x_ in xs)
                    if not guarded:
                        probs.append("no dominating guard `count <= self.limit` (or <= remaining) before inner.%s" % m)
                    okw = [w for w in ws if isinstance(canon(w[2]), tuple) and canon(w[2])[:3] == ("bin", "Sub", ("field", ("deref", ("param", 1)), "limit")) and canon(w[2])[3] in xs]
                    if len(okw) != 1:
                        probs.append("inner.%s consumes %s bytes but `self.limit -= <that count>` is missing (%d writes to limit)" % (m, fmt_expr(x)[:40], len(ws)))
                        continue
                    wb = okw[0][0]
                    for path in enumerate_paths(b):
                        if (bi in path) != (wb in path):
                            if m.startswith("try_") and bi in path:
                                # the fallible inner call refused (`?` / the Err arm): by its contract nothing was consumed, so nothing is charged
                                from .flow import path_relations as _pr
                                refused = False
                                for r_ in _pr(b, facts, path):
                                    if r_ and r_[0] in ("truth", "notin", "eq") and isinstance(r_[1], tuple) and r_[1] and r_[1][0] == "discr" \
                                            and any(isinstance(y, tuple) and y and y[0] in ("call", "ucall") and str(y[1]).rsplit("::", 1)[-1] == m for y in walk(r_[1])):
                                        v_ = r_[2]
                                        if (r_[0] == "truth" and v_ == 1) or (r_[0] == "notin" and 0 in tuple(v_)) or (r_[0] == "eq" and canon(v_) == ("const", 1)):
                                            refused = True
                                if refused:
                                    continue
                            probs.append("a returning path has inner.%s without the limit decrement (or vice versa)" % m)
                            break
                return probs
            ob = facts.by_did[it["did"]]
            decide("%s::%s" % (tname, it["name"]), ob, other_probs, "override: everything consumed through inner is guarded by and subtracted from limit (or nothing is consumed)")
    # accessors
    for acc, want in (("limit", "get"), ("set_limit", "set"), ("get_ref", "inner"), ("get_mut", "inner"), ("into_inner", "inner")):
        b = inherent_body(facts, head.split("<")[0], acc)
        key = "%s::%s" % (tname, acc)
        if b is None:
            res.bad(key, "-", "accessor not found")
            continue
        e = canon(return_expr(b, facts, inline=False))
        if want == "get":
            ok = lim(e)
        elif want == "inner":
            ok = self_field("inner")(strip_refs(e))
        else:
            ws = field_writes(b, facts, "limit")
            ok = len(ws) == 1 and canon(ws[0][2]) == ("param", 2)
        if ok:
            res.ok(key, b.loc(), "plain field accessor")
        else:
            res.bad(key, b.loc(), "accessor does more than read/write its field: %s" % fmt_expr(e))


# ---- Chain --------------------------------------------------------------------------------------
def path_edges(path):
    return list(zip(path, path[1:]))


def check_chain(res, facts, trait, rem_m, has_m, touching):
    head = "buf::chain::Chain"
    tname = "Chain(%s)" % trait.rsplit("::", 1)[-1]
    a_f, b_f = self_field("a"), self_field("b")
    is_a_rem = ucall_on(rem_m, "a")
    is_a_has = ucall_on(has_m, "a")
    # remaining = a.saturating_add(b)
    b = method_body(facts, trait, head, rem_m)
    key = "%s::%s" % (tname, rem_m)
    if b is None:
        res.bad(key, "-", "method not found")
    else:
        e = canon(return_expr(b, facts, inline=False))
        sa = saturating_sum_operands(e, facts)
        ok = sa is not None and \
            ((is_a_rem(sa[0]) and ucall_on(rem_m, "b")(sa[1])) or (is_a_rem(sa[1]) and ucall_on(rem_m, "b")(sa[0])))
        if ok:
            res.ok(key, b.loc(), "a.%s().saturating_add(b.%s())" % (rem_m, rem_m))
        else:
            res.bad(key, b.loc(), "is not the saturating sum of both halves: %s" % fmt_expr(e))
    im = [i for i in facts.impls if i.get("trait") == trait and i["self_ty"].startswith(head)]
    if len(im) != 1:
        raise RuleError("impl %s for Chain not found" % trait)
    n_b_calls = 0
    for it in im[0]["items"]:
        mb = facts.by_did.get(it.get("did"))
        if mb is None or it["name"] in (rem_m,):
            continue
        cs = calls_in(mb, facts)
        edges = {(s, d): normalize_cmp(c, v) for (s, d, c, v) in edge_conditions(mb, facts, inline=False)}
        paths = enumerate_paths(mb)
        for (bi, fn, args, t) in cs:
            if not args:
                continue
            recv = strip_refs(canon(args[0]))
            on_b = b_f(recv)
            # (&mut self.b).take(..) etc: first arg is a view of b
            if not on_b:
                continue
            if fn["name"] in (rem_m, has_m):
                continue
            n_b_calls += 1
            key = "%s::%s|b.%s" % (tname, it["name"], fn["name"])
            bad_path = None
            how = set()
            for path in paths:
                if bi not in path:
                    continue
                pre = path[:path.index(bi) + 1]
                w = None
                for (s, d) in path_edges(pre):
                    r = edges.get((s, d))
                    if r is None:
                        continue
                    if r[0] == "eq" and ((is_a_rem(r[1]) and canon(r[2]) == ("const", 0)) or (is_a_rem(r[2]) and canon(r[1]) == ("const", 0))):
                        w = "a.%s() == 0" % rem_m
                    if r[0] == "truth" and is_a_has(r[1]) and r[2] == 0:
                        w = "!a.%s()" % has_m
                    if r[0] == "truth" and isinstance(canon(r[1]), tuple) and canon(r[1])[0] == "bin" and canon(r[1])[1] == "Gt" \
                            and is_a_rem(canon(r[1])[2]) and canon(r[1])[3] == ("const", 0) and r[2] == 0:
                        w = "!(a.%s() > 0)" % rem_m
                    # what `a` listed covers everything `a` holds:  a.remaining() <= <something derived from dst / the reported count>
                    if r[0] in ("le", "eq", "lt") and is_a_rem(r[1]) and mentions_dst(r[2]):
                        w = "a.%s() <= bytes listed from a" % rem_m
                for pb in pre[:-1]:
                    for (cbi, cfn, cargs, ct) in cs:
                        if cbi != pb:
                            continue
                        # a.advance(a_rem) / a.advance_mut(a_rem): consumes exactly what a holds
                        if cfn["name"] in touching and a_f(strip_refs(canon(cargs[0]))) and len(cargs) > 1 and is_a_rem(cargs[1]):
                            # and the count handed to b is cnt - a_rem
                            w = "a.%s(a.%s()) consumed the whole of a" % (cfn["name"], rem_m)
                        # ret.put(&mut self.a): BufMut::put drains its source
                        if cfn["name"] == "put" and len(cargs) > 1 and a_f(strip_refs(canon(cargs[1]))):
                            w = "put(&mut a) drained a"
                if w is None:
                    # `let (head, tail) = dst.split_at_mut(min(a.remaining(), dst.len())); fill(a, head); fill(b, tail)`: b's part is non-empty
                    # only if the cut is a.remaining(), i.e. only if a's part is everything a holds
                    def split_part(e, idx):
                        e = strip_refs(canon(e))
                        if isinstance(e, tuple) and e and e[0] == "field" and str(e[2]) == str(idx) and isinstance(e[1], tuple) and e[1] and e[1][0] == "call" \
                                and e[1][1].rsplit("::", 1)[-1] in ("split_at_mut", "split_at") and len(e[1][2]) == 2:
                            return e[1]
                        return None
                    sb = split_part(args[1], 1) if len(args) > 1 else None
                    if sb is not None:
                        D, K = strip_refs(sb[2][0]), canon(sb[2][1])
                        cut_ok = is_min_of(K, is_a_rem, lambda z: isinstance(z, tuple) and z and z[0] in ("call", "ucall") and str(z[1]).rsplit("::", 1)[-1] == "len" and strip_refs(canon(z[2][0])) == D)
                        a_first = any(cbi in pre[:-1] and a_f(strip_refs(canon(cargs[0]))) and len(cargs) > 1 and split_part(cargs[1], 0) == sb
                                      for (cbi, cfn, cargs, ct) in cs if cargs)
                        if cut_ok and a_first:
                            w = "b receives the tail of split_at(min(a.%s(), len)), a the head, first" % rem_m
                if w is None:
                    bad_path = pre
                    break
                how.add(w)
            if bad_path is not None:
                alt = chain_paths_in_views(facts, mb, bi, fn["name"], rem_m, has_m, touching)
                if alt:
                    res.ok(key, mb.loc(bi), alt + " (path-sensitive, helpers inlined)", nontrivial=True)
                    continue
            if bad_path is not None:
                res.bad(key, mb.loc(bi), "`b.%s` is reached on a path where `a` is neither exhausted nor fully accounted for (path bb%s): "
                                         "the result is not a prefix of a ++ b" % (fn["name"], "->bb".join(str(x) for x in bad_path)))
            else:
                res.ok(key, mb.loc(bi), "; ".join(sorted(how)), nontrivial=True)
            # operand handed to b after consuming a: cnt - a_rem
            if fn["name"] in touching and len(args) > 1 and any("consumed" in h for h in how):
                x = args[1]
                alts = x[1] if (isinstance(x, tuple) and x[0] == "phi") else (x,)
                def is_rest(y):
                    y = canon(y)
                    return y[0] == "bin" and y[1] == "Sub" and y[2] == ("param", 2) and is_a_rem(y[3])
                okx = all(canon(y) == ("param", 2) or is_rest(y) for y in alts) and any(is_rest(y) for y in alts)
                if not okx:
                    res.bad(key + "|operand", mb.loc(bi), "count passed to b is not `cnt - a.remaining()`")
    return n_b_calls


def saturating_sum_operands(e, facts, depth=0):
    """(x, y) if e is the saturating sum of x and y: `x.saturating_add(y)`, `match x.checked_add(y) { Some(s) => s, None => usize::MAX }`
    (also `unwrap_or(usize::MAX)`), or a crate helper that is one of these over its two parameters"""
    from .flow import subst_params
    e = canon(e)
    if not isinstance(e, tuple) or not e:
        return None
    if e[0] == "call" and e[1].endswith("saturating_add") and len(e[2]) == 2:
        return e[2][0], e[2][1]
    if e[0] == "call" and e[1].rsplit("::", 1)[-1] == "unwrap_or" and len(e[2]) == 2 and isinstance(e[2][0], tuple) and e[2][0][0] == "call" \
            and e[2][0][1].endswith("checked_add") and canon(e[2][1]) == ("const", (1 << 64) - 1):
        return e[2][0][2][0], e[2][0][2][1]
    if e[0] == "phi" and len(e) > 1 and isinstance(e[1], tuple) and len(e[1]) == 2 and all(isinstance(a, tuple) for a in e[1]):
        alts = [canon(a) for a in e[1]]
        mx = [a for a in alts if a == ("const", (1 << 64) - 1)]
        pay = [a for a in alts if a[0] == "field" and isinstance(a[1], tuple) and a[1][0] == "variant" and isinstance(a[1][1], tuple)
               and a[1][1][0] == "call" and a[1][1][1].endswith("checked_add")]
        if len(mx) == 1 and len(pay) == 1:
            return pay[0][1][1][2][0], pay[0][1][1][2][1]
    if e[0] == "call" and depth < 2 and len(e[2]) == 2:
        cands = facts.by_id.get(e[1], [])
        if len(cands) == 1 and cands[0].kind in ("fn", "assoc_fn") and len(cands[0].blocks) <= 10:
            r = return_expr(cands[0], facts, inline=False)          # keeps the phi with its alternatives
            sub = saturating_sum_operands_raw(r, facts, depth + 1)
            if sub is not None and {canon(sub[0]), canon(sub[1])} == {("param", 1), ("param", 2)}:
                x, y = e[2]
                return (x, y) if canon(sub[0]) == ("param", 1) else (y, x)
    return None


def saturating_sum_operands_raw(r, facts, depth):
    """like saturating_sum_operands but on an un-canonicalised return expression (a phi still lists its alternatives)"""
    if isinstance(r, tuple) and r and r[0] == "phi" and isinstance(r[1], tuple) and len(r[1]) == 2:
        alts = [canon(a) for a in r[1]]
        mx = [a for a in alts if a == ("const", (1 << 64) - 1)]
        pay = [a for a in alts if isinstance(a, tuple) and a and a[0] == "field" and isinstance(a[1], tuple) and a[1][0] == "variant" and isinstance(a[1][1], tuple)
               and a[1][1][0] == "call" and a[1][1][1].endswith("checked_add")]
        if len(mx) == 1 and len(pay) == 1:
            return pay[0][1][1][2][0], pay[0][1][1][2][1]
    return saturating_sum_operands(r, facts, depth)


def chain_paths_in_views(facts, mb, bi, name, rem_m, has_m, touching):
    """fallback for a Chain method whose decision logic moved into a helper (`split_advance(a_rem, cnt) -> (Option, Option)`): in
    the view with crate-local helpers inlined, every *feasible* path to the call on `b` (switches on values built earlier on the
    same path take their one edge) must carry a witness, evaluated along that path: a.remaining() == 0 / !a.has_remaining(),
    or an earlier a.advance(x) whose operand is a.remaining() on that path; and a count handed to b after consuming a must
    be cnt - a.remaining() on that path. Returns a description, or None."""
    from .flow import PathExprBuilder, feasible_paths_to, path_relations, refuted_by_variants
    from .inline import views
    a_f, b_f = self_field("a"), self_field("b")
    is_a_rem = ucall_on(rem_m, "a")
    is_a_has = ucall_on(has_m, "a")
    for v in views(facts, mb):
        sites = [x for x in range(len(v.blocks)) if x == bi]
        if not sites:
            continue
        paths = feasible_paths_to(v, bi, limit=2000)
        if not paths:
            continue
        hows = set()
        ok = True
        for path in paths:
            pe = PathExprBuilder(v, facts, path, inline=False)
            w = None
            rels_ = path_relations(v, facts, path)
            if refuted_by_variants(rels_):
                continue
            for r in rels_:
                if r[0] == "eq" and ((is_a_rem(r[1]) and canon(r[2]) == ("const", 0)) or (is_a_rem(r[2]) and canon(r[1]) == ("const", 0))):
                    w = "a.%s() == 0" % rem_m
                if r[0] == "truth" and is_a_has(r[1]) and r[2] == 0:
                    w = "!a.%s()" % has_m
                if r[0] in ("le", "eq", "lt") and is_a_rem(r[1]) and mentions_dst(r[2]):
                    w = "a.%s() <= bytes listed from a" % rem_m
            consumed = False
            for pb in path[:-1]:
                t = v.blocks[pb]["term"]
                if t["k"] != "call":
                    continue
                cfn = callee(t)
                if cfn is None or cfn["name"] not in touching or len(t["args"]) < 2:
                    continue
                loc = (pb, len(v.blocks[pb]["stmts"]))
                recv = strip_refs(canon(pe.operand(t["args"][0], loc)))
                if a_f(recv) and is_a_rem(canon(pe.operand(t["args"][1], loc))):
                    w = "a.%s(a.%s()) consumed the whole of a" % (cfn["name"], rem_m)
                    consumed = True
            if w is None:
                ok = False
                break
            if consumed and name in touching:
                t = v.blocks[bi]["term"]
                x = canon(pe.operand(t["args"][1], (bi, len(v.blocks[bi]["stmts"])))) if len(t["args"]) > 1 else None
                if not (isinstance(x, tuple) and x[0] == "bin" and x[1] == "Sub" and x[2] == ("param", 2) and is_a_rem(x[3])):
                    ok = False
                    break
            hows.add(w)
        if ok and hows:
            return "; ".join(sorted(hows))
    return None


def chain_conservation(res, facts, trait, rem_m, methods):
    """Chain::{advance, advance_mut, copy_to_bytes}(n): on every returning path the amounts taken from the two halves add up to
    exactly n - decided in the linear-inequality domain from the relations on the path. Amounts: x.advance(k) / x.copy_to_bytes(k)
    -> k; `ret.put(&mut self.a)` drains a -> a.remaining(); `ret.put((&mut self.b).take(k))` -> k."""
    from .flow import PathExprBuilder, path_relations, refuted_by_variants
    from .inline import views
    from .lin import State
    head = "buf::chain::Chain"
    tname = "Chain(%s)" % trait.rsplit("::", 1)[-1]
    a_f, b_f = self_field("a"), self_field("b")
    n = 0
    for m in methods:
        mb = method_body(facts, trait, head, m)
        if mb is None:
            continue
        key = "%s::%s|amounts add up" % (tname, m)

        def judge(v):
            n_paths = 0
            cfgv = cfg_of(v)
            if any(cfgv.reaches(d, s_) for s_ in range(cfgv.n) for d in cfgv.succ[s_] if not v.blocks[s_]["cleanup"] and not v.blocks[d]["cleanup"] and (d == s_ or cfgv.reaches(d, s_))):
                return None, "the view contains a loop (values read along a path are not stable)"
            for path in enumerate_paths(v):
                pe = PathExprBuilder(v, facts, path, inline=False)
                rels = path_relations(v, facts, path)
                if refuted_by_variants(rels):
                    continue
                amounts = []
                for pb in path:
                    t = v.blocks[pb]["term"]
                    if t["k"] != "call":
                        continue
                    fn = callee(t)
                    if fn is None or not t["args"]:
                        continue
                    loc = (pb, len(v.blocks[pb]["stmts"]))
                    args = [canon(pe.operand(x, loc)) for x in t["args"]]
                    recv = strip_refs(args[0])
                    nm = fn["name"]
                    if (a_f(recv) or b_f(recv)) and nm in ("advance", "advance_mut", "copy_to_bytes") and len(args) > 1:
                        amounts.append(args[1])
                    elif nm == "put" and len(args) == 2:
                        src = strip_refs(args[1])
                        if a_f(src) or b_f(src):
                            # what a drained half gives up is its remaining(): the value the method read before (same receiver)
                            seen = [x for r in rels for side in r[1:3] if isinstance(side, tuple) for x in walk(side)
                                    if isinstance(x, tuple) and x and x[0] == "ucall" and x[1].rsplit("::", 1)[-1] == rem_m and x[2] and strip_refs(canon(x[2][0])) == src]
                            amounts.append(seen[0] if seen else ("ucall", trait + "::" + rem_m, (args[1],), None))
                        elif isinstance(src, tuple) and src and src[0] in ("call", "ucall") and src[1].rsplit("::", 1)[-1] == "take" and len(src[2]) == 2 \
                                and (a_f(strip_refs(src[2][0])) or b_f(strip_refs(src[2][0]))):
                            # `put(half.take(n))` moves min(n, half.remaining()) bytes: it is n only where n <= half.remaining() is known on the path
                            half_rem = ("ucall", trait + "::" + rem_m, (src[2][0],), None)
                            seen = [x for r in rels for side in r[1:3] if isinstance(side, tuple) for x in walk(side)
                                    if isinstance(x, tuple) and x and x[0] == "ucall" and x[1].rsplit("::", 1)[-1] == rem_m and x[2] and strip_refs(canon(x[2][0])) == strip_refs(canon(src[2][0]))]
                            amounts.append(("call", "core::cmp::min", (src[2][1], seen[0] if seen else half_rem)))
                        else:
                            return None, "an amount this rule cannot read (%s)" % fmt_expr(args[1])[:60]
                    elif (a_f(recv) or b_f(recv)) and nm not in (rem_m, "has_remaining", "has_remaining_mut", "chunk", "chunk_mut", "chunks_vectored", "remaining", "remaining_mut",
                                                              "take", "limit", "by_ref", "get_ref", "get_mut"):
                        return None, "a consuming call this rule cannot account (%s)" % nm
                if not amounts:
                    continue
                n_paths += 1
                total = amounts[0]
                for x in amounts[1:]:
                    total = ("bin", "Add", total, x)
                # a drained half contributes its own remaining(): identify `a.remaining()` read earlier with the same call
                facts_ = [r for r in rels if r[0] in ("lt", "le", "eq", "ne") or (r[0] == "truth" and not (isinstance(r[1], tuple) and r[1] and r[1][0] == "ovf"))]
                if not State(facts_).entails(("eq", total, ("param", 2))):
                    return False, "on the path bb%s the halves give up %s bytes, which the conditions on that path do not make equal to the %s requested" % (
                        "->bb".join(str(x) for x in path), fmt_expr(canon(total))[:120], "n")
            return (True, "%d paths, the amounts taken from a and b add up to the request on each" % n_paths) if n_paths else (None, "no consuming path")
        ok, text = judge(mb)
        if ok is False or ok is None:
            for ib in views(facts, mb):
                ok2, text2 = judge(ib)
                if ok2:
                    ok, text = True, text2 + " (with helpers inlined)"
                    break
        if ok is None:
            continue            # reshaped beyond what this clause reads: the order clause above still decides
        n += 1
        if ok:
            res.ok(key, mb.loc(), text, nontrivial=True)
        else:
            res.bad(key, mb.loc(), text)
    return n


def mentions_dst(e):
    """`e` (what a.remaining() is compared with) is computed from the slices that `a` listed and from nothing else in dst:
    every use of dst sits under `dst[..n]` with n the count a.chunks_vectored reported (or is the argument of that very
    call). Slices beyond n are whatever the caller left there and say nothing about `a`."""
    state = {"good": 0, "bad": 0}

    def is_cnt(x):
        return any(isinstance(y, tuple) and y and y[0] == "ucall" and y[1].endswith("chunks_vectored") for y in walk(x))

    def rec(x, depth=0):
        if not isinstance(x, tuple) or not x or depth > 60:
            return
        if x == ("param", 2):
            state["bad"] += 1
            return
        if x[0] == "ucall" and x[1].endswith("chunks_vectored"):
            state["good"] += 1          # the reported count itself; its dst argument is not a use of dst's contents
            return
        if x[0] == "call" and x[1].rsplit("::", 1)[-1] in ("index", "index_mut", "get", "get_mut", "get_unchecked") and len(x[2]) == 2:
            base, rng = x[2]
            if strip_refs(base) == ("param", 2) and isinstance(rng, tuple) and rng and rng[0] == "agg" and isinstance(rng[1], tuple) \
                    and rng[1][1].rsplit("::", 1)[-1] == "RangeTo" and is_cnt(rng[2][0]):
                state["good"] += 1
                return
        if x[0] == "call" and x[1].rsplit("::", 1)[-1] == "take" and len(x[2]) == 2 and is_cnt(x[2][1]):
            state["good"] += 1          # dst.iter().take(n)
            return
        for y in x:
            if isinstance(y, tuple):
                rec(y, depth + 1)
    rec(e)
    rec(canon(e))
    return state["good"] > 0 and state["bad"] == 0


# ---- Reader / Writer ------------------------------------------------------------------------------
def check_rw(res, facts):
    def no_err(b):
        for blk in b.blocks:
            for s in blk["stmts"]:
                if s["k"] == "assign" and s["rv"]["k"] == "agg" and s["rv"].get("adt", "").endswith("Result") and s["rv"].get("variant") == "Err":
                    return False
        return True

    buf_f = self_field("buf")
    specs = [
        ("std::io::Read", "buf::reader::Reader", "read", "remaining", "copy_to_slice", BUF),
        ("std::io::Write", "buf::writer::Writer", "write", "remaining_mut", "put_slice", BUFMUT),
    ]
    for (tr, head, m, rem, xfer, btrait) in specs:
        b = method_body(facts, tr, head, m)
        key = "%s::%s" % (head.rsplit("::", 1)[-1], m)
        if b is None:
            res.bad(key, "-", "method not found (is the std feature on?)")
            continue
        probs = []
        if not no_err(b):
            probs.append("constructs an Err")
        e = canon(return_expr(b, facts, inline=False))
        n_ok = isinstance(e, tuple) and e[0] == "agg" and "Ok" in str(e[1]) and \
            is_min_of(e[2][0], ucall_on(rem, "buf"), len_of(lambda z: z == ("param", 2)))
        if not n_ok:
            probs.append("does not return Ok(min(%s(), slice.len())): %s" % (rem, fmt_expr(e)))
        cs = [c for c in calls_in(b, facts) if c[1]["name"] == xfer]
        if len(cs) != 1:
            probs.append("expected one %s call" % xfer)
        else:
            bi, fn, args, t = cs[0]
            sl = strip_refs(canon(args[1]))
            okr = False
            if isinstance(sl, tuple) and sl[0] == "call" and sl[1].rsplit("::", 1)[-1] in ("index", "index_mut") and strip_refs(sl[2][0]) == ("param", 2):
                rng = sl[2][1]
                if isinstance(rng, tuple) and rng[0] == "agg":
                    ops = rng[2]
                    end = ops[-1]
                    start_ok = len(ops) == 1 or canon(ops[0]) == ("const", 0)
                    if start_ok and is_min_of(end, ucall_on(rem, "buf"), len_of(lambda z: z == ("param", 2))):
                        okr = True
            if not okr:
                probs.append("transfers something other than slice[..n]: %s" % fmt_expr(args[1]))
            if not buf_f(strip_refs(canon(args[0]))):
                probs.append("%s is not called on self.buf" % xfer)
        if probs and no_err(b):
            sem = rw_semantic(facts, b, rem)
            if sem is not None and not sem:
                res.ok(key, b.loc(), "decided per path: the count returned is the bytes moved, bounded by %s() and the slice length and equal to one of them; a prefix of the slice is moved; no Err" % rem, nontrivial=True)
                continue
            if sem:
                probs = sem
        if probs:
            res.bad(key, b.loc(), "; ".join(probs))
        else:
            res.ok(key, b.loc(), "n = min(%s, len); %s(slice[..n]); Ok(n); no Err" % (rem, xfer), nontrivial=True)
    # BufRead::fill_buf = Ok(chunk), consume = advance, Write::flush = Ok(())
    for (tr, head, m, inner) in (("std::io::BufRead", "buf::reader::Reader", "fill_buf", "chunk"),
                                 ("std::io::BufRead", "buf::reader::Reader", "consume", "advance"),
                                 ("std::io::Write", "buf::writer::Writer", "flush", None)):
        b = method_body(facts, tr, head, m)
        key = "%s::%s" % (head.rsplit("::", 1)[-1], m)
        if b is None:
            res.bad(key, "-", "method not found")
            continue
        cs = [c for c in calls_in(b, facts) if c[1].get("trait") in (BUF, BUFMUT)]
        ok = no_err(b)
        if inner is None:
            ok = ok and not cs
        else:
            ok = ok and len(cs) == 1 and cs[0][1]["name"] == inner and buf_f(strip_refs(canon(cs[0][2][0]))) and \
                (len(cs[0][2]) == 1 or canon(cs[0][2][1]) == ("param", 2))
        if ok:
            res.ok(key, b.loc(), "forwards to buf.%s" % inner if inner else "Ok(())")
        else:
            res.bad(key, b.loc(), "is not the plain forwarding to buf.%s" % inner)


WANTS_PROP = True


def run(facts, prop=None):
    res = Result("C4", "Take/Limit: remaining = min(inner, limit), chunk truncated by the same min, every inner consuming call paired with "
                       "limit -= same operand under a guard; Chain touches b only when a is exhausted or fully accounted for; "
                       "Reader/Writer transfer exactly min(available, requested), return it and never fail")
    check_limit_adapter(res, facts, BUF, "buf::take::Take", "Take", "remaining", "chunk", "advance", extra=("copy_to_bytes",))
    check_limit_adapter(res, facts, BUFMUT, "buf::limit::Limit", "Limit", "remaining_mut", "chunk_mut", "advance_mut")
    n = check_chain(res, facts, BUF, "remaining", "has_remaining", ("advance", "copy_to_bytes"))
    n += check_chain(res, facts, BUFMUT, "remaining_mut", "has_remaining_mut", ("advance_mut",))
    check_chain_has(res, facts, BUF, "remaining", "has_remaining")
    check_chain_has(res, facts, BUFMUT, "remaining_mut", "has_remaining_mut")
    chain_conservation(res, facts, BUF, "remaining", ("advance", "copy_to_bytes"))
    chain_conservation(res, facts, BUFMUT, "remaining_mut", ("advance_mut",))
    res.floor("chain_b_calls", n, 4)
    has_std = any(c == 'feature="std"' for c in facts.cfg)
    if has_std:
        check_rw(res, facts)
        check_rw_extra(res, facts)
        check_take_vectored(res, facts)
        check_take_vectored_budget(res, facts)
    check_has_overrides(res, facts)
    check_constructors(res, facts, has_std)
    return res


CONSTRUCTORS = [("buf::take::new", "Take", 2, False), ("buf::limit::new", "Limit", 2, False), ("buf::chain::Chain::<T, U>::new", "Chain", 2, False),
                ("buf::iter::IntoIter::<T>::new", "IntoIter", 1, False), ("buf::reader::new", "Reader", 1, True), ("buf::writer::new", "Writer", 1, True)]


def check_constructors(res, facts, has_std):
    """the adapters store exactly what they are given: `new(inner, limit)` = Adapter{inner, limit}, no clamping, no pre-reading"""
    for ident, name, nargs, std_only in CONSTRUCTORS:
        if std_only and not has_std:
            continue
        l = facts.by_id.get(ident, [])
        key = "%s::new stores its arguments unchanged" % name
        if len(l) != 1:
            res.bad(key, "-", "constructor %s not found" % ident)
            continue
        b = l[0]
        e = canon(return_expr(b, facts, inline=False))
        ok = isinstance(e, tuple) and e[0] == "agg" and isinstance(e[1], tuple) and e[1][1].endswith("::" + name) \
            and tuple(e[2]) == tuple(("param", i + 1) for i in range(nargs))
        calls = [c for _, c in b.calls()]
        if ok and not calls:
            res.ok(key, b.loc(), "%s{%s}" % (name, ", ".join("arg%d" % (i + 1) for i in range(nargs))))
        else:
            res.bad(key, b.loc(), "the constructor does not store its arguments as given: %s" % fmt_expr(e)[:100])


def check_take_vectored(res, facts):
    """Take::chunks_vectored never reports more slices than dst holds: the scratch slice handed to the inner buffer is
    cut to min(dst.len(), N) (or dst itself is handed on), the function returns 0, the inner count, or a loop index + 1"""
    b = method_body(facts, BUF, "buf::take::Take", "chunks_vectored")
    key = "Take::chunks_vectored|count bounded by dst.len()"
    if b is None:
        res.bad(key, "-", "Take::chunks_vectored not found")
        return
    eb = ExprBuilder(b, facts, inline=True)
    probs = []
    inner_calls = []
    for bi, t in b.calls():
        fn = callee(t)
        if fn and fn["name"] == "chunks_vectored" and not b.blocks[bi]["cleanup"]:
            loc = (bi, len(b.blocks[bi]["stmts"]))
            inner_calls.append([canon(eb.operand(a, loc)) for a in t["args"]])
    if len(inner_calls) != 1:
        probs.append("expected one inner.chunks_vectored call, found %d" % len(inner_calls))
    else:
        recv, dst = inner_calls[0]
        if not self_field("inner")(strip_refs(recv)):
            probs.append("chunks_vectored is not called on self.inner")
        d = strip_refs(dst)
        if d == ("param", 2):
            pass
        else:
            bounded = False
            for x in walk(d):
                if isinstance(x, tuple) and x and x[0] == "call" and x[1].rsplit("::", 1)[-1] == "index_mut" and len(x[2]) == 2:
                    r = x[2][1]
                    if isinstance(r, tuple) and r[0] == "agg" and isinstance(r[1], tuple) and r[1][1].endswith("RangeTo"):
                        if is_min_of(r[2][0], len_of(lambda y: y == ("param", 2)), lambda y: True):
                            bounded = True
            if not bounded:
                probs.append("the scratch slice given to the inner buffer is not cut to min(dst.len(), ..): the inner count can exceed dst.len()")
    # dst is written only for the slices the inner buffer actually listed: the copying loop is bounded by the inner count
    # (a `..cnt` range over dst or the scratch array, a `0..cnt` loop, or `.take(cnt)`), never by the number of free slots
    def is_cnt(x):
        return any(isinstance(y, tuple) and y and y[0] == "ucall" and y[1].endswith("chunks_vectored") for y in walk(x))
    bounded = False
    for bi, t in b.calls():
        if b.blocks[bi]["cleanup"]:
            continue
        loc = (bi, len(b.blocks[bi]["stmts"]))
        for a in t["args"]:
            e = eb.operand(a, loc)
            for x in walk(e):
                if isinstance(x, tuple) and x and x[0] == "agg" and isinstance(x[1], tuple) and x[1][1].rsplit("::", 1)[-1] in ("RangeTo", "Range", "RangeToInclusive") \
                        and x[2] and is_cnt(x[2][-1]):
                    bounded = True
                if isinstance(x, tuple) and x and x[0] == "call" and x[1].rsplit("::", 1)[-1] == "take" and len(x[2]) == 2 and is_cnt(x[2][1]):
                    bounded = True
    if inner_calls and not bounded:
        probs.append("the loop that fills dst is not bounded by the count the inner buffer reported: slots beyond the returned count are overwritten")
    if probs:
        res.bad(key, b.loc(), "; ".join(probs))
    else:
        res.ok(key, b.loc(), "inner.chunks_vectored(&mut scratch[..min(dst.len(), N)]); dst filled for the listed slices only", nontrivial=True)


def check_take_vectored_budget(res, facts):
    """Take::chunks_vectored lists at most `limit` bytes: the cut applied to a listed slice is `limit - (bytes of the slices listed whole
    before it)`, carried from one iteration to the next (rules/budget.py: closed forms of loop-carried locals)."""
    from .budget import Loop, S, fmt, lf_add
    from .flow import defs_of
    b = method_body(facts, BUF, "buf::take::Take", "chunks_vectored")
    key = "Take::chunks_vectored|budget carried"
    if b is None:
        return
    b_orig = b
    cuts = []
    for b in [b_orig] + list(views(facts, b_orig)):
        # (the trimming loop may sit in a helper `trim_to_limit(dst, slices, self.limit)`: then it is read in the view with helpers spliced in)
        cfg = cfg_of(b)
        defs = defs_of(b)
        cuts = find_cuts(b, cfg, defs)
        if cuts:
            break
    if not cuts:
        res.bad(key, b_orig.loc(), "no cut `slice[..budget]` of a listed slice found in a loop: nothing bounds the listing by the limit")
        return
    return judge_cuts(res, facts, key, b, b_orig, cuts, defs)


def find_cuts(b, cfg, defs):
    cuts = []
    for bi, t in b.calls():
        fn = callee(t)
        if fn is None or b.blocks[bi]["cleanup"] or not cfg.reaches(bi, bi):
            continue
        if fn["name"] in ("get", "index", "get_unchecked", "split_at", "split_at_checked", "get_mut", "index_mut") and len(t["args"]) == 2:
            r = t["args"][1]
            end = None
            if fn["name"].startswith("split_at"):
                end = r
            elif r["k"] in ("copy", "move") and not r["pl"]["p"]:
                rd = defs.get(r["pl"]["l"], [])
                if len(rd) == 1 and rd[0][2] == "assign" and rd[0][3]["k"] == "agg" and str(rd[0][3].get("adt", "")).endswith("RangeTo"):
                    end = rd[0][3]["ops"][0]
            if end is not None:
                cuts.append((bi, t["args"][0], end))
    return cuts


def judge_cuts(res, facts, key, b, b_orig, cuts, defs):
    from .budget import Loop, S, fmt, lf_add
    probs, oks = [], []
    for bi, recv, end in cuts:
        lp = Loop(b, facts, bi)
        elem = lp.chase(recv)
        f = lp.operand(end)
        if f is not None and len(f) == 1 and list(f.values()) == [1] and isinstance(list(f)[0], tuple) and list(f)[0][0] == "MIN":
            # `..min(budget, slice.len())`: the budget is the operand that is not this slice's length
            d = defs[list(f)[0][1]][0][3]
            fs = [lp.operand(a) for a in d["args"]]
            rest = [x for x in fs if x != {("LEN", elem): 1}]
            f = rest[0] if len(rest) == 1 else None
        if f is None or elem is None:
            probs.append("the end of the cut at bb%d is not a sum / difference of amounts this rule can follow" % bi)
            continue
        g, notes = lp.resolve(dict(f), elem)
        if g is None:
            probs.append("the cut `..%s` has no closed form: %s" % (fmt(f), notes))
            continue
        want = {("FIELD", "limit"): 1, S: -1}
        if g != want:
            probs.append("the cut `..%s` evaluates to %s, not to self.limit - S (S = bytes of the slices listed whole so far)%s" % (fmt(f), fmt(g), "; " + "; ".join(notes) if notes else ""))
        else:
            oks.append("cut at bb%d: ..%s == self.limit - S (%s)" % (bi, fmt(f), "; ".join(notes)))
    if probs:
        res.bad(key, b_orig.loc(), "; ".join(probs) + ": the listing can hold more than `limit` bytes")
    else:
        res.ok(key, b_orig.loc(), "; ".join(oks) + (" (helpers inlined)" if b is not b_orig else ""), nontrivial=True)


def check_chain_has(res, facts, trait, rem_m, has_m):
    """Chain::has_remaining / has_remaining_mut, when overridden, is `remaining() != 0`: true only where one half is known to have
    something left, false only where both are known to have nothing - decided per path.  (`chunk_mut` / `advance_mut` of an outer
    Chain pick the half by a.has_remaining_mut(): an answer that looks at one half only sends writes to the wrong half.)"""
    from .flow import enumerate_paths, PathExprBuilder, path_relations
    head = "buf::chain::Chain"
    im = [i for i in facts.impls if i.get("trait") == trait and i["self_ty"].startswith(head)]
    if len(im) != 1:
        return
    it = [x for x in im[0]["items"] if x["name"] == has_m]
    if not it:
        return
    b = facts.by_did.get(it[0].get("did"))
    if b is None:
        return
    key = "Chain(%s)::%s|agrees with %s() != 0" % (trait.rsplit("::", 1)[-1], has_m, rem_m)

    def yes_no(rels, fld):
        is_has, is_rem = ucall_on(has_m, fld), ucall_on(rem_m, fld)
        z = ("const", 0)
        yes = no = False
        for r in rels:
            if r[0] == "truth" and is_has(strip_refs(canon(r[1]))):
                yes, no = yes or r[2] == 1, no or r[2] == 0
            if len(r) > 2 and isinstance(r[1], tuple) and isinstance(r[2], tuple):
                x, y = strip_refs(canon(r[1])), strip_refs(canon(r[2]))
                if (r[0] in ("ne",) and ((is_rem(x) and y == z) or (is_rem(y) and x == z))) or (r[0] == "lt" and x == z and is_rem(y)):
                    yes = True
                if (r[0] == "eq" and ((is_rem(x) and y == z) or (is_rem(y) and x == z))) or (r[0] == "le" and is_rem(x) and y == z):
                    no = True
        return yes, no

    def nonzero_of(e, fld):
        is_has, is_rem = ucall_on(has_m, fld), ucall_on(rem_m, fld)
        e = strip_refs(canon(e))
        if is_has(e):
            return True
        return isinstance(e, tuple) and e and e[0] == "bin" and ((e[1] in ("Ne", "Gt") and is_rem(strip_refs(canon(e[2]))) and canon(e[3]) == ("const", 0)) or
                                                               (e[1] in ("Ne", "Lt") and canon(e[2]) == ("const", 0) and is_rem(strip_refs(canon(e[3])))))

    def whole(e):
        # `self.remaining() != 0` / `a.remaining().saturating_add(b.remaining()) > 0`
        e = strip_refs(canon(e))
        if not (isinstance(e, tuple) and e and e[0] == "bin" and e[1] in ("Ne", "Gt", "Lt")):
            return False
        for x, y in ((e[2], e[3]), (e[3], e[2])):
            if canon(y) != ("const", 0):
                continue
            x = canon(x)
            if isinstance(x, tuple) and x[0] in ("call", "ucall") and str(x[1]).rsplit("::", 1)[-1] == rem_m and strip_refs(canon(x[2][0])) in (("param", 1), ("deref", ("param", 1))):
                return True
            sa = saturating_sum_operands(x, facts)
            if sa is not None and ((ucall_on(rem_m, "a")(sa[0]) and ucall_on(rem_m, "b")(sa[1])) or (ucall_on(rem_m, "a")(sa[1]) and ucall_on(rem_m, "b")(sa[0]))):
                return True
        return False
    prob = None
    n = 0
    for path in enumerate_paths(b, limit=200):
        n += 1
        pe = PathExprBuilder(b, facts, path, inline=False)
        v = canon(pe.local(0, (path[-1], len(b.blocks[path[-1]]["stmts"]))))
        rels = [r for r in path_relations(b, facts, path) if r]
        a_yes, a_no = yes_no(rels, "a")
        b_yes, b_no = yes_no(rels, "b")
        if isinstance(v, tuple) and v and v[0] == "const":
            if v[1] in (1, True) and not (a_yes or b_yes):
                prob = "answers true on a path where neither half is known to have anything left"
            elif v[1] in (0, False) and not (a_no and b_no):
                prob = "answers false on a path where the two halves are not both known to be exhausted"
        elif whole(v):
            pass
        elif nonzero_of(v, "b") and a_no:
            pass
        elif nonzero_of(v, "a") and b_no:
            pass
        else:
            sv = strip_refs(v)
            # `a.has() | b.has()` computed without a branch
            if isinstance(sv, tuple) and sv and sv[0] == "bin" and sv[1] == "BitOr" and ((nonzero_of(sv[2], "a") and nonzero_of(sv[3], "b")) or (nonzero_of(sv[2], "b") and nonzero_of(sv[3], "a"))):
                pass
            else:
                prob = "on the path bb%s the answer is %s, which looks at one half only (the other half is not known to be exhausted there)" % ("->bb".join(str(x) for x in path), fmt_expr(v)[:80])
        if prob:
            break
    if prob:
        res.bad(key, b.loc(), prob + ": it disagrees with %s() != 0" % rem_m)
    else:
        res.ok(key, b.loc(), "%d path(s): true only with a half known non-empty, false only with both halves known empty" % n, nontrivial=True)


def check_has_overrides(res, facts):
    """every other `has_remaining` / `has_remaining_mut` override in the crate says `remaining() != 0` of the same impl: a comparison of
    the impl's own remaining expression with 0, `!x.is_empty()` where remaining is `x.len()`, or the same forward to the same receiver."""
    z = ("const", 0)
    n = 0
    for trait, rem_m, has_m in ((BUF, "remaining", "has_remaining"), (BUFMUT, "remaining_mut", "has_remaining_mut")):
        for im in facts.impls:
            if im.get("trait") != trait or im["self_ty"].startswith(("buf::chain::Chain", "buf::take::Take", "buf::limit::Limit")):
                continue
            items = {x["name"]: facts.by_did.get(x.get("did")) for x in im["items"]}
            hb, rb = items.get(has_m), items.get(rem_m)
            if hb is None:
                continue
            n += 1
            key = "%s for %s::%s|agrees with %s() != 0" % (trait.rsplit("::", 1)[-1], im["self_ty"], has_m, rem_m)
            hv = strip_refs(canon(return_expr(hb, facts, inline=False)))
            rv = strip_refs(canon(return_expr(rb, facts, inline=False))) if rb is not None else None

            def is_rem(e):
                e = strip_refs(canon(e))
                if rv is not None and e == rv:
                    return True
                return isinstance(e, tuple) and e and e[0] in ("call", "ucall") and str(e[1]).rsplit("::", 1)[-1] == rem_m and e[2] and \
                    strip_refs(canon(e[2][0])) in (("param", 1), ("deref", ("param", 1)))
            ok = False
            if isinstance(hv, tuple) and hv and hv[0] == "bin":
                ok = (hv[1] in ("Ne", "Gt") and is_rem(hv[2]) and canon(hv[3]) == z) or (hv[1] in ("Ne", "Lt") and canon(hv[2]) == z and is_rem(hv[3]))
            if not ok and isinstance(hv, tuple) and hv and hv[0] in ("call", "ucall") and str(hv[1]).rsplit("::", 1)[-1] == has_m and \
                    isinstance(rv, tuple) and rv and rv[0] in ("call", "ucall") and str(rv[1]).rsplit("::", 1)[-1] == rem_m:
                ok = strip_refs(canon(hv[2][0])) == strip_refs(canon(rv[2][0]))
            if not ok and isinstance(hv, tuple) and hv and hv[0] == "un" and hv[1] == "Not":
                x = strip_refs(canon(hv[2]))
                if isinstance(x, tuple) and x and x[0] in ("call", "ucall") and str(x[1]).rsplit("::", 1)[-1] == "is_empty" and \
                        isinstance(rv, tuple) and rv and rv[0] in ("call", "ucall") and str(rv[1]).rsplit("::", 1)[-1] == "len":
                    ok = strip_refs(canon(x[2][0])) == strip_refs(canon(rv[2][0]))
            if not ok and im["self_ty"].startswith("std::io::Cursor") and trait == BUF:
                # position / length arithmetic: decided by what it computes (false where position >= len, true where position < len), linear domain
                from .r_c7 import cursor_semantic
                ok = not cursor_semantic(facts, hb, "has")
            if ok:
                res.ok(key, hb.loc(), "%s" % fmt_expr(hv)[:80], nontrivial=True)
            else:
                res.bad(key, hb.loc(), "the answer %s is not `%s() != 0` of this impl (%s = %s)" % (fmt_expr(hv)[:80], rem_m, rem_m, fmt_expr(rv)[:60] if rv is not None else "provided"))
    res.floor("has_remaining overrides outside the adapters", n, 2)


def replace_tree(e, frm, to):
    if e == frm:
        return to
    if isinstance(e, tuple):
        return tuple(replace_tree(x, frm, to) if isinstance(x, tuple) else x for x in e)
    return e


def rw_measure(facts, b0):
    """per control-flow path of an io adapter method (its own body, else the views with helpers spliced in): what went through `self.buf` and
    what the method reports.  -> (problem | None, number of measured paths, [ (count, total, [(slice expr | None)], State) ]), or None when the
    method cannot be measured (loops, transfers of unknown size)"""
    from .pathstate import StatePathBuilder, root_of
    from .flow import cfg_of as _cfg, expand_combinators, expand_slice_get
    from .lin import State
    buf_f = self_field("buf")
    XFER = {"copy_to_slice": ("slice", 1), "try_copy_to_slice": ("slice", 1), "put_slice": ("slice", 1), "advance": ("int", 1), "advance_mut": ("int", 1),
            "copy_to_bytes": ("int", 1), "put_bytes": ("int", 2)}
    NEUTRAL = ("remaining", "remaining_mut", "has_remaining", "has_remaining_mut", "chunk", "chunk_mut", "chunks_vectored")
    for b in [b0] + list(views(facts, b0)):
        cfg = _cfg(b)
        if any(cfg.reaches(i_, i_) for i_ in range(len(b.blocks)) if not b.blocks[i_]["cleanup"]):
            return None
        out = []
        opaque = False
        for path in enumerate_paths(b, limit=400):
            sp = StatePathBuilder(b, facts, path, inline=False)

            def slice_len(e, loc, depth=0):
                e = canon(e)
                while isinstance(e, tuple) and e and (e[0] in ("ref", "deref") or (e[0] == "cast" and "Unsize" in str(e[1]))):
                    e = e[2] if e[0] == "cast" else e[1]
                if depth > 6 or not isinstance(e, tuple) or not e:
                    return None
                if e[0] == "field" and isinstance(e[1], tuple) and e[1] and e[1][0] == "variant":
                    g = e[1][1]
                    while isinstance(g, tuple) and g and g[0] in ("ref", "deref"):
                        g = g[1]
                    if isinstance(g, tuple) and g and g[0] == "call" and g[1].rsplit("::", 1)[-1] in ("get", "get_mut") and len(g[2]) == 2:
                        e = ("call", "index", g[2])        # the payload of s.get(range) is s[range]
                if e[0] == "call":
                    nm = e[1].rsplit("::", 1)[-1]
                    if nm in ("index", "index_mut", "get_unchecked", "get_unchecked_mut") and len(e[2]) == 2 and isinstance(e[2][1], tuple) and e[2][1][0] == "agg":
                        rng, ops = str(e[2][1][1]), e[2][1][2]
                        base = slice_len(e[2][0], loc, depth + 1)
                        if "RangeFull" in rng:
                            return base
                        if "RangeFrom" in rng:
                            return ("bin", "Sub", base, ops[0]) if base is not None else None
                        if "RangeTo" in rng:
                            return ops[0]
                        return ("bin", "Sub", ops[1], ops[0]) if len(ops) == 2 else None
                    if nm in ("deref", "deref_mut", "as_mut_slice", "as_slice", "borrow", "borrow_mut", "as_mut", "as_ref") and len(e[2]) == 1 and "alloc::vec::Vec" in e[1]:
                        r_ = root_of(e[2][0])
                        return ("vecprop", "len", r_, sp.version(r_, loc))
                    if nm in ("deref", "deref_mut") and len(e[2]) == 1:
                        return ("call", "core::slice::<impl [T]>::len", (e,))
                if e[0] == "param":
                    ty = b.locals[e[1]]["ty"]
                    if "alloc::vec::Vec" in ty:
                        return ("vecprop", "len", e, sp.version(e, loc))
                    return ("call", "core::slice::<impl [T]>::len", (e,))
                return None
            cases = [([], [], [], [])]          # (amounts, extra relations, slices, substitutions)
            unknown = False
            rems = []
            for pb in path:
                t = b.blocks[pb]["term"]
                if t["k"] != "call" or not t["args"]:
                    continue
                fn = callee(t)
                if fn is None:
                    continue
                loc = (pb, len(b.blocks[pb]["stmts"]))
                recv = strip_refs(canon(sp.operand(t["args"][0], loc)))
                r_ = fn.get("res") or {}
                if recv in (("param", 1), ("deref", ("param", 1))) and r_.get("local") and b.locals[1]["ty"].startswith("&mut"):
                    unknown = True          # a crate helper gets the whole adapter: what it moves is not visible here (seen in the inlined view)
                    opaque = True
                if not buf_f(recv):
                    continue
                nm = fn["name"]
                if nm in NEUTRAL:
                    if nm in ("remaining", "remaining_mut") and not t["dest"]["p"]:
                        rems.append(canon(sp.local(t["dest"]["l"], (t["target"], 0))) if t.get("target") is not None else None)
                    continue
                if nm in XFER and len(t["args"]) > XFER[nm][1]:
                    kind, i_ = XFER[nm]
                    a_ = sp.operand(t["args"][i_], loc)
                    if kind == "int":
                        alts = [(canon(a_), [], None, None)]
                    else:
                        whole = canon(strip_refs(canon(a_)))
                        ex = expand_combinators(whole, facts)
                        alts = [(slice_len(v_, loc), list(x_), canon(v_), (whole, canon(v_))) for (v_, x_) in ex] if ex else [(slice_len(a_, loc), [], canon(a_), None)]
                    if any(a[0] is None for a in alts):
                        unknown = True
                    else:
                        cases = [(am + [a[0]], ex_ + a[1], sl + [a[2]], sb + ([a[3]] if a[3] else [])) for (am, ex_, sl, sb) in cases for a in alts]
                else:
                    unknown = True
            if unknown:
                continue
            ret = canon(sp.local(0, (path[-1], len(b.blocks[path[-1]]["stmts"]))))
            if not (isinstance(ret, tuple) and ret and ret[0] == "agg" and "Ok" in str(ret[1]) and ret[2]):
                continue
            for (amounts, extra, slices, subs) in cases:
                cnt = ret[2][0]
                for (frm, to) in subs:
                    cnt = replace_tree(cnt, frm, to)
                cx = cnt
                while isinstance(cx, tuple) and cx and cx[0] == "cast":
                    cx = cx[2]
                if isinstance(cx, tuple) and cx and cx[0] == "call" and cx[1].rsplit("::", 1)[-1] == "len" and len(cx[2]) == 1:
                    m_ = slice_len(cx[2][0], (path[-1], 0))
                    if m_ is not None:
                        cnt = m_
                total = ("const", 0)
                for x in amounts:
                    total = ("bin", "Add", total, x) if total != ("const", 0) else x
                rels = expand_slice_get([r for r in sp.path_relations() if r] + [(x[0], canon(x[1]), x[2]) for x in extra])
                hyp = [r for r in rels if r and r[0] in ("lt", "le", "eq", "ne")] + sp.vec_facts()
                st = State(hyp, facts=facts)
                if st.refuted():
                    continue
                st.hyp = hyp
                out.append((canon(cnt), canon(total), slices, st, path, [r for r in rems if r is not None]))
        if out or not opaque:
            return out
    return []


def check_rw_extra(res, facts):
    """every other method the Reader / Writer adapters implement from std::io::{Read, Write} themselves and that reports a byte count
    (`read_to_end`, `read_vectored`, `write_vectored`, ..): on every path the count returned is the number of bytes that went through
    `self.buf` on that path (copy_to_slice(s): len(s), advance(n) / copy_to_bytes(n) / put_bytes(_, n): n, put_slice(s): len(s)) - entailed
    from the state at the end of the path (Vec effects applied: resize, reserve, set_len; slices `&mut v[a..]` have length len(v) - a) in the
    linear domain.  Methods with loops are left to the dataflow rules (C9); a path with a transfer this rule cannot measure is not judged."""
    for (tr, head, known) in (("std::io::Read", "buf::reader::Reader", ("read",)), ("std::io::Write", "buf::writer::Writer", ("write", "flush"))):
        im = [i for i in facts.impls if i.get("trait") == tr and i["self_ty"].startswith(head)]
        if len(im) != 1:
            continue
        for it in im[0]["items"]:
            b = facts.by_did.get(it.get("did"))
            if b is None or it["name"] in known:
                continue
            # "never fail": an extra method may answer Err only where the inner buffer is known to hold less than was asked for
            # (`read_exact` on a short buffer) - `remaining() < dst.len()` dominates the construction of the error
            from .logic import Ctx
            rem_m_ = "remaining" if tr.endswith("Read") else "remaining_mut"
            buf_f_ = self_field("buf")
            xfer_blocks = set()
            for bi_, t_ in b.calls():
                fn_ = callee(t_)
                if fn_ is not None and not b.blocks[bi_]["cleanup"] and fn_["name"] in ("copy_to_slice", "try_copy_to_slice", "put_slice", "advance", "advance_mut", "copy_to_bytes", "put_bytes", "put") \
                        and t_["args"] and buf_f_(strip_refs(canon(ExprBuilder(b, facts, inline=False).operand(t_["args"][0], (bi_, len(b.blocks[bi_]["stmts"])))))):
                    xfer_blocks.add(bi_)
            for bi_, blk_ in enumerate(b.blocks):
                if blk_["cleanup"]:
                    continue
                t__ = blk_["term"]
                via_q = t__["k"] == "call" and callee(t__) is not None and callee(t__)["name"] == "from_residual"
                if via_q:
                    # `self.read(dst)?` on the adapter's own never-failing method propagates an error that cannot occur: no construction
                    ebq = ExprBuilder(b, facts, inline=False)
                    src_ = canon(ebq.operand(t__["args"][0], (bi_, len(blk_["stmts"])))) if t__["args"] else None
                    srcs = [y for y in walk(src_) if isinstance(y, tuple) and y and y[0] in ("call", "ucall") and str(y[1]).rsplit("::", 1)[-1] not in ("branch", "from_residual")] if src_ else []
                    def never_fails(y):
                        cands = facts.by_id.get(y[1], []) if y[0] == "call" else []
                        if len(cands) != 1:
                            return False
                        cbq = cands[0]
                        return not any(s_["k"] == "assign" and s_["rv"]["k"] == "agg" and str(s_["rv"].get("adt", "")).endswith("Result") and s_["rv"].get("variant") == "Err"
                                       for bq in cbq.blocks for s_ in bq["stmts"]) and not any((callee(tq) or {}).get("name") == "from_residual" for _, tq in cbq.calls())
                    if srcs and all(never_fails(y) for y in srcs if str(y[1]).rsplit("::", 1)[-1] in ("read", "write", "flush", "fill_buf") or (y[0] == "call" and facts.by_id.get(y[1]))):
                        if any(str(y[1]).rsplit("::", 1)[-1] in ("read", "write", "flush", "fill_buf") or (y[0] == "call" and facts.by_id.get(y[1])) for y in srcs):
                            via_q = False
                if via_q or any(s_["k"] == "assign" and s_["rv"]["k"] == "agg" and str(s_["rv"].get("adt", "")).endswith("Result") and s_["rv"].get("variant") == "Err" for s_ in blk_["stmts"]):
                    ctx_ = Ctx(b, bi_, facts)
                    # "transfer min(available, requested)": what is there has gone through before the adapter gives up (std's write_all writes the
                    # prefix that fits, read_exact reads what is left) - every way to the error passes a transfer, or nothing is left at all
                    cfg_ = cfg_of(b)
                    seen__, st__, skipped = {0}, [0], False
                    while st__ and not skipped:
                        x__ = st__.pop()
                        if x__ == bi_:
                            skipped = True
                            break
                        for y__ in cfg_.succ[x__]:
                            if y__ not in seen__ and y__ not in xfer_blocks and not b.blocks[y__]["cleanup"]:
                                seen__.add(y__)
                                st__.append(y__)
                    none_left = any(r_ and r_[0] in ("eq", "le") and len(r_) > 2 and isinstance(r_[1], tuple) and isinstance(r_[2], tuple)
                                    and ucall_on(rem_m_, "buf")(strip_refs(canon(r_[1]))) and canon(r_[2]) == ("const", 0) for r_ in ctx_.rels)
                    kx = "%s::%s|what is there is transferred before failing" % (head.rsplit("::", 1)[-1], it["name"])
                    if skipped and not none_left and 0 not in xfer_blocks:
                        res.bad(kx, b.loc(bi_), "a path reaches this Err without moving anything through self.buf although %s() may be non-zero: the adapter refuses where it "
                                                "must transfer min(available, requested)" % rem_m_)
                    else:
                        res.ok(kx, b.loc(bi_), "every way to the error passes a transfer (or nothing is left)", nontrivial=True)
                    short = False
                    for r_ in ctx_.rels:
                        if r_ and r_[0] == "lt" and len(r_) > 2 and isinstance(r_[1], tuple) and isinstance(r_[2], tuple) \
                                and ucall_on(rem_m_, "buf")(strip_refs(canon(r_[1]))) and any(x == ("param", 2) for x in walk(canon(r_[2]))):
                            short = True
                    if not short:
                        # .. or it follows: `let n = min(remaining, len); ..; if n < len { Err }`
                        from .lin import State as _St
                        rems_ = [x for r_ in ctx_.rels if r_ for side in r_[1:3] if isinstance(side, tuple) for x in walk(canon(side))
                                 if isinstance(x, tuple) and x and ucall_on(rem_m_, "buf")(strip_refs(x))]
                        if rems_:
                            try:
                                st_ = _St([r_ for r_ in ctx_.rels if r_ and r_[0] in ("lt", "le", "eq", "ne")], facts=facts)
                                short = (not st_.refuted()) and st_.entails(("lt", rems_[0], ("call", "core::slice::<impl [T]>::len", (("param", 2),))))
                            except (ValueError, KeyError, TypeError, RecursionError):
                                short = False
                    kerr = "%s::%s|Err only when short" % (head.rsplit("::", 1)[-1], it["name"])
                    if short:
                        res.ok(kerr, b.loc(bi_), "the error is built under %s() < requested" % rem_m_, nontrivial=True)
                    else:
                        res.bad(kerr, b.loc(bi_), "an Err is built where `%s() < requested` is not known: the adapter fails although the inner buffer can satisfy the request" % rem_m_)
            if "usize" not in b.locals[0]["ty"]:
                continue
            key = "%s::%s|count reported = bytes transferred" % (head.rsplit("::", 1)[-1], it["name"])
            ms = rw_measure(facts, b)
            if ms is None:
                res.ok(key, b.loc(), "has a loop: left to the cursor dataflow (C9)")
                continue
            prob = None
            for (n, total, slices, st, path, _rems) in ms:
                if not st.entails(("eq", n, total)):
                    prob = "on the path bb%s the method reports %s but %s byte(s) went through self.buf" % ("->bb".join(str(x) for x in path), fmt_expr(n)[:50], fmt_expr(total)[:90])
                    break
            if prob:
                res.bad(key, b.loc(), prob + ": the count, the caller's buffer and the inner cursor disagree")
            elif ms:
                res.ok(key, b.loc(), "%d path(s): the count returned equals the bytes moved through self.buf" % len(ms), nontrivial=True)
            else:
                res.ok(key, b.loc(), "no path this clause can measure")


def rw_semantic(facts, b, rem_m):
    """Reader::read / Writer::write decided by what they do rather than by how they are spelt: on every path the count n returned is the number
    of bytes moved through self.buf, n <= remaining, n <= slice.len(), n equals one of the two (so n = min), and what is moved is a prefix of
    the caller's slice.  -> list of problems (empty: holds), or None when the method cannot be measured"""
    ms = rw_measure(facts, b)
    if not ms:
        return None
    rem = None
    is_rem = ucall_on(rem_m, "buf")
    ln = ("call", "core::slice::<impl [T]>::len", (("param", 2),))
    for (n, total, slices, st, path, rems) in ms:
        where = "on the path bb%s " % "->bb".join(str(x) for x in path)
        if not st.entails(("eq", n, total)):
            return [where + "the count %s is not the number of bytes moved (%s)" % (fmt_expr(n)[:40], fmt_expr(total)[:60])]
        if not rems:
            return [where + "%s() of the inner buffer is not consulted" % rem_m]
        remx = rems[0]
        if not (st.entails(("le", n, ln)) and st.entails(("le", n, remx))):
            return [where + "the count %s is not bounded by both %s() and the slice length" % (fmt_expr(n)[:40], rem_m)]
        from .lin import State
        lo = State(st.hyp + [("lt", remx, ln)], facts=facts)
        hi = State(st.hyp + [("le", ln, remx)], facts=facts)
        if not ((lo.refuted() or lo.entails(("eq", n, remx))) and (hi.refuted() or hi.entails(("eq", n, ln)))):
            return [where + "the count %s is not the minimum of %s() and the slice length" % (fmt_expr(n)[:40], rem_m)]
        for sl in slices:
            x = sl
            while isinstance(x, tuple) and x and (x[0] in ("ref", "deref") or (x[0] == "cast")):
                x = x[2] if x[0] == "cast" else x[1]
            ok = x == ("param", 2)
            if isinstance(x, tuple) and x and x[0] == "field" and isinstance(x[1], tuple) and x[1][0] == "variant":
                g = strip_refs(canon(x[1][1]))
                if isinstance(g, tuple) and g and g[0] == "call" and len(g[2]) == 2:
                    x = ("call", "index", g[2])
            if isinstance(x, tuple) and x and x[0] == "call" and x[1].rsplit("::", 1)[-1] in ("index", "index_mut", "get_unchecked", "get_unchecked_mut") and len(x[2]) == 2 \
                    and strip_refs(canon(x[2][0])) == ("param", 2) and isinstance(x[2][1], tuple) and x[2][1][0] == "agg":
                rng, ops = str(x[2][1][1]), x[2][1][2]
                ok = "RangeTo" in rng or "RangeFull" in rng or (len(ops) == 2 and canon(ops[0]) == ("const", 0))
            if not ok:
                return [where + "what is moved is not a prefix of the caller's slice: %s" % fmt_expr(sl)[:70]]
    return []
