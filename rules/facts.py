"""Fact base: loads the JSON exported by the bytes-sa driver and indexes it.

Everything the rules look at comes from here: type-checked MIR with resolved callees, HIR tables
(impls, traits, ADTs, fn signatures/predicates) and expanded-AST facts (format_args!, attributes).
"""
import json


class Body:
    __slots__ = ("j", "id", "did", "kind", "blocks", "locals", "arg_count", "facts", "parent_did",
                 "_cache", "promoted", "span")

    def __init__(self, j, facts):
        self.j = j
        self.id = j.get("id", "?")
        self.did = j.get("did")
        self.kind = j.get("kind", "promoted")
        self.blocks = j["blocks"]
        self.locals = j["locals"]
        self.arg_count = j["arg_count"]
        self.facts = facts
        self.parent_did = j.get("parent_did")
        self._cache = {}
        self.promoted = [Body(p, facts) for p in j.get("promoted", [])]
        for p in self.promoted:
            p.id = "%s::{promoted#%d}" % (self.id, p.j["index"])
        self.span = j.get("span")

    @property
    def safety(self):
        return self.j.get("safety")

    @property
    def vis(self):
        return self.j.get("vis")

    @property
    def name(self):
        # last path segment (without generic args)
        s = self.id
        if s.endswith(">") and "::" not in s.rsplit(">", 1)[1]:
            pass
        return s.rsplit("::", 1)[-1]

    def var_names(self):
        """local index -> user variable name (from debug info)"""
        c = self._cache.get("vars")
        if c is None:
            c = {}
            for v in self.j.get("vars", []):
                p = v.get("place")
                if p is not None and not p["p"]:
                    c.setdefault(p["l"], v["name"])
            self._cache["vars"] = c
        return c

    def loc(self, bb=None, si=None):
        """file:line of a block terminator / statement (for reports only, never for keys)"""
        sp = self.span
        if bb is not None:
            blk = self.blocks[bb]
            if si is None or si >= len(blk["stmts"]):
                sp = blk["term"]["span"]
            else:
                sp = blk["stmts"][si].get("span", blk["term"]["span"])
        if not sp:
            return "?"
        return "%s:%s" % (sp["file"], sp["line"])

    def terms(self):
        for i, b in enumerate(self.blocks):
            yield i, b["term"]

    def calls(self):
        for i, b in enumerate(self.blocks):
            t = b["term"]
            if t["k"] == "call":
                yield i, t


def callee(t):
    """fn-info dict of a call terminator (None for indirect calls)"""
    f = t["func"]
    if f["k"] == "const":
        return f.get("fn")
    return None


def callee_path(t, resolved=True):
    fn = callee(t)
    if fn is None:
        return None
    if resolved and fn.get("res"):
        return fn["res"]["path"]
    return fn["path"]


def callee_full(t, resolved=True):
    fn = callee(t)
    if fn is None:
        return None
    if resolved and fn.get("res"):
        return fn["res"]["full"]
    return fn["full"]


def is_unresolved(t):
    fn = callee(t)
    return fn is not None and "res" in fn and fn["res"] is None


class Facts:
    def __init__(self, path):
        with open(path) as f:
            self.j = json.load(f)
        self.path = path
        self.crate = self.j["crate"]
        self.cfg = self.j["cfg"]
        self.bodies = [Body(b, self) for b in self.j["bodies"]]
        self.by_did = {b.did: b for b in self.bodies}
        self.by_id = {}
        for b in self.bodies:
            self.by_id.setdefault(b.id, []).append(b)
        self.hir = self.j["hir"]
        self.ast = self.j["ast"]
        self.fns_by_did = {f["did"]: f for f in self.hir["fns"]}
        self.impls = self.hir["impls"]
        self.impl_by_did = {i["did"]: i for i in self.impls}
        self.traits = {t["path"]: t for t in self.hir["traits"]}
        self.adts = {a["path"]: a for a in self.hir["adts"]}
        # items (ast) by did, with attributes
        self.item_attrs = {}
        for it in self.ast["items"]:
            if it.get("did") is not None:
                self.item_attrs[it["did"]] = it
        self._test_dids = None
        self._devirtualize_into()
        self._normalize_ptr_methods()
        # closures by parent
        self.children = {}
        for b in self.bodies:
            if b.parent_did is not None:
                self.children.setdefault(b.parent_did, []).append(b)

    def _devirtualize_into(self):
        """`x.into()` resolves to core's blanket `impl<T, U: From<T>> Into<U> for T`, whose body is
        `U::from(self)`. When the crate has that From impl, point the call at it so that call graphs,
        summaries and expression trees see through the conversion."""
        import re
        def norm(t):
            return re.sub(r"'[a-z_]+ ", "", t)
        froms = {}
        for im in self.impls:
            if im.get("trait") == "core::convert::From" and len(im.get("trait_args", [])) == 2:
                for it in im["items"]:
                    if it["name"] == "from" and it.get("did") is not None:
                        froms[(norm(im["trait_args"][0]), norm(im["trait_args"][1]))] = it
        def fix(fn):
            r = fn.get("res")
            if r and r.get("path") == "<T as core::convert::Into<U>>::into" and len(fn.get("args", [])) == 2:
                it = froms.get((norm(fn["args"][1]), norm(fn["args"][0])))
                if it is not None:
                    fn["res"] = {"path": it["path"], "full": it["path"], "local": True, "did": it["did"], "ikind": "item",
                                 "via": "Into::into -> From::from"}
        for b in self.bodies:
            for bb in [b] + b.promoted:
                for blk in bb.blocks:
                    t = blk["term"]
                    if t["k"] == "call" and t["func"]["k"] == "const" and "fn" in t["func"]:
                        fix(t["func"]["fn"])

    def _normalize_ptr_methods(self):
        """the pointer *methods* that move bytes are spelled as the free functions the rules know:
        `src.copy_to_nonoverlapping(dst, n)` / `dst.copy_from_nonoverlapping(src, n)` = `ptr::copy_nonoverlapping(src, dst, n)`,
        `src.copy_to(dst, n)` / `dst.copy_from(src, n)` = `ptr::copy(src, dst, n)`, `dst.write_bytes(v, n)` = `ptr::write_bytes(dst, v, n)`"""
        table = {"copy_to_nonoverlapping": ("copy_nonoverlapping", (0, 1, 2)), "copy_from_nonoverlapping": ("copy_nonoverlapping", (1, 0, 2)),
                 "copy_to": ("copy", (0, 1, 2)), "copy_from": ("copy", (1, 0, 2)), "write_bytes": ("write_bytes", (0, 1, 2))}
        for b in self.bodies:
            for bb in [b] + b.promoted:
                for blk in bb.blocks:
                    t = blk["term"]
                    if t["k"] != "call" or t["func"]["k"] != "const" or "fn" not in t["func"]:
                        continue
                    fn = t["func"]["fn"]
                    r = fn.get("res") or fn
                    p_ = r.get("path", "")
                    if fn["name"] in table and ("ptr::mut_ptr::<impl *mut T>" in p_ or "ptr::const_ptr::<impl *const T>" in p_) and len(t["args"]) == 3:
                        name, order = table[fn["name"]]
                        targs = fn.get("args") or []
                        full = "core::ptr::%s" % name + ("::<%s>" % targs[0] if targs else "")
                        t["args"] = [t["args"][i] for i in order]
                        t["func"]["fn"] = {"path": "core::ptr::%s" % name, "full": full, "args": targs, "local": False, "name": name, "unsafe": True,
                                           "res": {"path": "core::ptr::%s" % name, "full": full, "local": False, "ikind": "item"}, "via": "pointer method " + fn["name"]}

    # ---- lookups -------------------------------------------------------------------------
    def body(self, ident):
        """unique body with this def path; None if absent; raises if ambiguous"""
        l = self.by_id.get(ident, [])
        if not l:
            return None
        if len(l) > 1:
            raise KeyError("ambiguous body id %s" % ident)
        return l[0]

    def find(self, suffix, kinds=("fn", "assoc_fn", "closure")):
        return [b for b in self.bodies if b.kind in kinds and b.id.endswith(suffix)]

    def fn_bodies(self):
        return [b for b in self.bodies if b.kind in ("fn", "assoc_fn", "closure") and not self.is_test(b)]

    def hir_fn(self, body):
        return self.fns_by_did.get(body.did)

    def impl_of(self, body):
        f = self.fns_by_did.get(body.did)
        if f and f.get("container_kind", "").startswith("Impl"):
            return self.impl_by_did.get(f.get("container_did"))
        return None

    def trait_item_of(self, body):
        f = self.fns_by_did.get(body.did)
        return f.get("trait_item") if f else None

    def find_impl_method(self, trait_path, self_ty, method):
        """did of `method` in the crate impl of trait_path for self_ty (matched on the type head,
        generic parameter names ignored); None if there is none (e.g. self_ty is a type parameter)"""
        def head(t):
            return t.split("<", 1)[0].strip()
        for im in self.impls:
            if im.get("trait") != trait_path:
                continue
            a, b = im["self_ty"], self_ty
            if a == b or (("::" in a) and head(a) == head(b)):
                for it in im["items"]:
                    if it["name"] == method and it.get("did") is not None:
                        return it["did"]
        return None

    # ---- test-only code ------------------------------------------------------------------
    def test_dids(self):
        """def indices of items under #[cfg(test)] / #[test] (only present in test builds)"""
        if self._test_dids is None:
            s = set()
            roots = set()
            for it in self.ast["items"]:
                attrs = " ".join(it["attrs"])
                if "cfg(test)" in attrs or "#[test]" in attrs or "rustc_test_marker" in attrs \
                        or "cfg(all(test" in attrs:
                    if it.get("did") is not None:
                        roots.add(it["did"])
            # propagate to children through parent links of bodies / fns
            parent = {}
            for b in self.bodies:
                if b.parent_did is not None:
                    parent[b.did] = b.parent_did
            for f in self.hir["fns"]:
                if f.get("container_did") is not None:
                    parent.setdefault(f["did"], f["container_did"])
            # ast items know their textual path; mark every ast item whose path passes through a root
            root_paths = set()
            for it in self.ast["items"]:
                if it.get("did") in roots:
                    root_paths.add(it["path"])
            for it in self.ast["items"]:
                p = it["path"]
                for rp in root_paths:
                    if p == rp or p.startswith(rp + "::"):
                        if it.get("did") is not None:
                            s.add(it["did"])
            changed = True
            while changed:
                changed = False
                for c, p in parent.items():
                    if p in s and c not in s:
                        s.add(c)
                        changed = True
            self._test_dids = s
        return self._test_dids

    def is_test(self, body):
        d = body.did
        t = self.test_dids()
        while d is not None:
            if d in t:
                return True
            b = self.by_did.get(d)
            d = b.parent_did if b is not None else None
        return False


# ---- pretty printer (for reports and debugging) ----------------------------------------------
def fmt_place(p):
    s = "_%d" % p["l"]
    for e in p["p"]:
        if e == "*":
            s = "(*%s)" % s
        elif "f" in e:
            s = "%s.%s" % (s, e.get("n", e["f"]))
        elif "idx" in e:
            s = "%s[_%d]" % (s, e["idx"])
        elif "variant" in e:
            s = "(%s as %s)" % (s, e.get("vname"))
        else:
            s = "%s[%s]" % (s, json.dumps(e))
    return s


def fmt_op(o):
    if o["k"] in ("copy", "move"):
        return o["k"] + " " + fmt_place(o["pl"])
    if o["k"] == "const":
        if "fn" in o:
            return "fn " + o["fn"]["full"]
        extra = ""
        if "static" in o:
            extra = " [static %s]" % o["static"]
        if "promoted" in o:
            extra += " [promoted %s]" % o["promoted"]
        return "const " + o["s"] + extra
    return json.dumps(o)


def fmt_rv(r):
    k = r["k"]
    if k == "use":
        return fmt_op(r["op"])
    if k in ("ref", "rawptr"):
        return ("&mut " if r["mut"] else "&") + ("raw " if k == "rawptr" else "") + fmt_place(r["pl"])
    if k == "bin":
        return "%s(%s, %s)" % (r["op"], fmt_op(r["a"]), fmt_op(r["b"]))
    if k == "un":
        return "%s(%s)" % (r["op"], fmt_op(r["a"]))
    if k == "cast":
        return "%s as %s [%s]" % (fmt_op(r["op"]), r["ty"], r["ck"])
    if k == "agg":
        head = r["ak"]
        if r["ak"] == "adt":
            head = "%s::%s" % (r["adt"], r["variant"])
        elif r["ak"] == "closure":
            head = "closure %s" % r["closure"]
        return "%s{%s}" % (head, ", ".join(fmt_op(o) for o in r["ops"]))
    if k == "discr":
        return "discr(%s)" % fmt_place(r["pl"])
    return json.dumps(r)


def fmt_body(b):
    out = ["== %s [%s %s %s]" % (b.id, b.kind, b.safety, b.vis)]
    names = b.var_names()
    for i, l in enumerate(b.locals):
        out.append("   _%d: %s%s" % (i, l["ty"], ("   // " + names[i]) if i in names else ""))
    for i, bl in enumerate(b.blocks):
        out.append("  bb%d%s:" % (i, " (cleanup)" if bl["cleanup"] else ""))
        for s in bl["stmts"]:
            if s["k"] == "assign":
                mac = s["span"].get("macros")
                out.append("     %s = %s   // %s%s" % (fmt_place(s["pl"]), fmt_rv(s["rv"]), s["span"]["line"],
                                                      " " + ",".join(mac) if mac else ""))
            elif s["k"] != "dead":
                out.append("     %s" % s["k"])
        t = bl["term"]
        k = t["k"]
        if k == "call":
            fn = callee(t)
            name = fn["full"] if fn else fmt_op(t["func"])
            res = ""
            if fn and fn.get("res") and fn["res"]["full"] != fn["full"]:
                res = " => " + fn["res"]["full"]
            if fn and "res" in fn and fn["res"] is None:
                res = " => UNRESOLVED"
            out.append("     %s = %s(%s)%s -> bb%s unwind %s   // %s" % (
                fmt_place(t["dest"]), name, ", ".join(fmt_op(a) for a in t["args"]), res, t["target"], t["unwind"],
                t["span"]["line"]))
        elif k == "switch":
            out.append("     switch %s %s else bb%d" % (fmt_op(t["discr"]), t["targets"], t["otherwise"]))
        elif k == "assert":
            out.append("     assert %s == %s [%s %s] -> bb%d" % (fmt_op(t["cond"]), t["expected"], t["ak"], t.get("op", ""), t["target"]))
        elif k == "drop":
            out.append("     drop %s : %s -> bb%d unwind %s" % (fmt_place(t["pl"]), t["ty"], t["target"], t["unwind"]))
        elif k == "goto":
            out.append("     goto bb%d" % t["target"])
        else:
            out.append("     %s" % k)
    return "\n".join(out)


if __name__ == "__main__":
    import sys
    f = Facts(sys.argv[1])
    for pat in sys.argv[2:]:
        for b in f.bodies:
            if pat in b.id:
                print(fmt_body(b))
                for p in b.promoted:
                    print(fmt_body(p))
