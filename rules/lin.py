"""Linear-inequality abstract domain over provenance trees (shared by A15, and as a fallback by other rules).

A *state* is a conjunction of constraints  sum(c_i * atom_i) + k >= 0  over the non-negative integer atoms of the
expression language of flow.py (handle fields, parameters, results of calls that are not arithmetic).  Relations
collected on the edges of one control-flow path (flow.path_relations) are translated into constraints; the state is
*empty* (the path cannot be taken under the hypotheses) when Fourier-Motzkin elimination over the rationals derives
k >= 0 with k < 0.  Rational emptiness implies integer emptiness, strict inequalities are tightened for integers
(a < b  =>  a + 1 <= b), and anything that is not understood becomes a fresh atom or is dropped - so the domain can
only fail to refute (a report), never refute a path that can be taken.

Arithmetic is read as exact: `a - b` carries the side condition b <= a and `a + b` the side condition a + b <= usize::MAX
exactly where the program is overflow-checked on that path (`ovf` facts, `checked_*` results); where it is not, rule E1
is the one that vouches that no wrap-around occurs.
"""
from fractions import Fraction
from .flow import canon

USIZE_MAX = (1 << 64) - 1
ISIZE_MAX = (1 << 63) - 1
WIDE = ("usize", "u64", "isize", "i64", "u128", "i128")


def _is(e, head):
    return isinstance(e, tuple) and e and e[0] == head


def _call_name(e):
    return e[1].rsplit("::", 1)[-1] if _is(e, "call") else None


def strip_casts(e):
    # widening / same-width integer casts only; a truncating cast is a different number and stays an atom
    while _is(e, "cast") and e[1] == "IntToInt" and (len(e) < 4 or e[3] in WIDE):
        e = e[2]
    return e


class Lin:
    """translation of expressions / relations into linear constraints"""

    def __init__(self, facts=None):
        self.facts = facts       # needed only to apply closures inside Option / Result combinators
        self.atoms = {}          # canonical expr -> index
        self.names = []
        self.side = []           # side constraints discovered while linearising (min/max/saturating_sub)
        self.cases = {}          # atom index -> [constraints of case A, constraints of case B]: exact definition by case split

    def atom(self, e):
        e = canon(e)
        if e not in self.atoms:
            self.atoms[e] = len(self.names)
            self.names.append(e)
        return self.atoms[e]

    def form(self, e):
        """-> (dict atom index -> Fraction, Fraction const)"""
        e = strip_casts(e)
        if _is(e, "const") and isinstance(e[1], bool):
            return {}, Fraction(int(e[1]))
        if _is(e, "const") and isinstance(e[1], int):
            return {}, Fraction(e[1])
        if _is(e, "bin") and e[1] in ("Add", "AddUnchecked", "AddWithOverflow", "Sub", "SubUnchecked", "SubWithOverflow"):
            fa, ka = self.form(e[2])
            fb, kb = self.form(e[3])
            s = 1 if e[1].startswith("Add") else -1
            out = dict(fa)
            for a, c in fb.items():
                out[a] = out.get(a, 0) + s * c
            return {a: c for a, c in out.items() if c != 0}, ka + s * kb
        if _is(e, "bin") and e[1] in ("Mul", "MulUnchecked", "MulWithOverflow"):
            for x, y in ((e[2], e[3]), (e[3], e[2])):
                x = strip_casts(x)
                if _is(x, "const") and isinstance(x[1], int) and not isinstance(x[1], bool):
                    fy, ky = self.form(y)
                    return {a: c * x[1] for a, c in fy.items() if c * x[1] != 0}, ky * x[1]
        if _is(e, "field") and e[2] in (0, "0") and _is(e[1], "bin") and e[1][1] in ("AddWithOverflow", "SubWithOverflow", "MulWithOverflow"):
            return self.form(("bin", e[1][1], e[1][2], e[1][3]))
        if _is(e, "field") and _is(e[1], "variant") and _call_name(e[1][1]) in ("checked_add", "checked_sub"):
            a, b = e[1][1][2][0], e[1][1][2][1]
            return self.form(("bin", "Add" if _call_name(e[1][1]) == "checked_add" else "Sub", a, b))
        if _call_name(e) in ("expect", "unwrap", "unwrap_unchecked") and e[2] and _call_name(e[2][0]) in ("checked_add", "checked_sub"):
            inner = e[2][0]
            return self.form(("bin", "Add" if _call_name(inner) == "checked_add" else "Sub", inner[2][0], inner[2][1]))
        # usize::try_from(x) / u64::try_from(x) between unsigned integers: the Ok payload is x itself
        if _is(e, "field") and e[2] in (0, "0") and _is(e[1], "variant") and e[1][2] == "Ok" and _call_name(e[1][1]) == "try_from" and e[1][1][2]:
            return self.form(e[1][1][2][0])
        nm = _call_name(e)
        if nm in ("unwrap_or", "unwrap_or_else", "map_or") and (_is(e, "call") and ("option::Option" in e[1] or "result::Result" in e[1])) and self.facts is not None:
            # Option / Result combinators: an atom defined by cases (flow.expand_combinators gives the guarded alternatives)
            from .flow import expand_combinators
            alts = expand_combinators(e, self.facts)
            if alts:
                i = self.atom(e)
                if i not in self.cases:
                    self.cases[i] = None          # re-entrancy guard
                    cs = []
                    for val, rels in alts:
                        c = []
                        for r in rels:
                            c.extend(self.relation(r))
                        fv, kv = self.form(val)
                        d1 = dict(fv); d1[i] = d1.get(i, 0) - 1           # val - A >= 0
                        d2 = {a: -c_ for a, c_ in fv.items()}; d2[i] = d2.get(i, 0) + 1   # A - val >= 0
                        c.append((d1, kv)); c.append((d2, -kv))
                        cs.append(c)
                    self.cases[i] = cs
                return {i: Fraction(1)}, Fraction(0)
        if nm == "min_u64_usize" and len(e[2]) == 2:
            # the crate's clamp of a u64 position into a usize length: mathematically min(a, b) (its body is checked by C7 check_helpers)
            nm = "min"
        if nm in ("min", "max") and len(e[2]) == 2:
            i = self.atom(e)
            forms = []
            for x in e[2]:
                fx, kx = self.form(x)
                forms.append((fx, kx))
                d = dict(fx)
                d[i] = d.get(i, 0) - 1
                if nm == "min":          # x - m >= 0
                    self.side.append((d, kx))
                else:                    # m - x >= 0
                    self.side.append(({a: -c for a, c in d.items()}, -kx))
            if i not in self.cases:
                (fa, ka), (fb, kb) = forms
                def sub(f1, k1, f2, k2, k=0):        # f1 - f2 + k >= 0
                    d_ = dict(f1)
                    for a_, c_ in f2.items():
                        d_[a_] = d_.get(a_, 0) - c_
                    return (d_, k1 - k2 + k)
                mi = ({i: Fraction(1)}, Fraction(0))
                eq = lambda f1, k1: [sub(mi[0], mi[1], f1, k1), sub(f1, k1, mi[0], mi[1])]
                if nm == "min":
                    self.cases[i] = [[sub(fb, kb, fa, ka)] + eq(fa, ka), [sub(fa, ka, fb, kb, -1)] + eq(fb, kb)]
                else:
                    self.cases[i] = [[sub(fa, ka, fb, kb)] + eq(fa, ka), [sub(fb, kb, fa, ka, -1)] + eq(fb, kb)]
            return {i: Fraction(1)}, Fraction(0)
        if nm in ("unwrap_or", "unwrap_or_default") and e[2] and _call_name(e[2][0]) == "checked_sub" and (len(e[2]) == 1 or (_is(strip_casts(e[2][1]), "const") and strip_casts(e[2][1])[1] == 0)):
            return self.form(("call", "core::num::<impl usize>::saturating_sub", (e[2][0][2][0], e[2][0][2][1])))
        if nm == "saturating_sub" and len(e[2]) == 2:
            i = self.atom(e)
            fa, ka = self.form(e[2][0])
            fb, kb = self.form(e[2][1])
            if i not in self.cases:
                dab = dict(fa)
                for a_, c_ in fb.items():
                    dab[a_] = dab.get(a_, 0) - c_
                kab = ka - kb                                    # a - b
                s_minus = dict({a_: -c_ for a_, c_ in dab.items()}); s_minus[i] = s_minus.get(i, 0) + 1      # s - (a - b)
                ab_minus_s = dict(dab); ab_minus_s[i] = ab_minus_s.get(i, 0) - 1                            # (a - b) - s
                self.cases[i] = [[(dab, kab), (s_minus, -kab), (ab_minus_s, kab)],
                                 [({a_: -c_ for a_, c_ in dab.items()}, -kab - 1), ({i: Fraction(-1)}, Fraction(0))]]
            d = {a: -c for a, c in fa.items()}
            for a, c in fb.items():
                d[a] = d.get(a, 0) + c
            d[i] = d.get(i, 0) + 1
            self.side.append((d, kb - ka))                       # s >= a - b
            d2 = dict(fa)
            d2[i] = d2.get(i, 0) - 1
            self.side.append((d2, ka))                           # s <= a
            return {i: Fraction(1)}, Fraction(0)
        return {self.atom(e): Fraction(1)}, Fraction(0)

    def ge0(self, fa, ka):
        return ({a: c for a, c in fa.items() if c != 0}, ka)

    def diff(self, a, b, k=0):
        """constraint  a - b + k >= 0"""
        fa, ka = self.form(a)
        fb, kb = self.form(b)
        d = dict(fa)
        for x, c in fb.items():
            d[x] = d.get(x, 0) - c
        return self.ge0(d, ka - kb + k)

    def relation(self, r):
        """constraints implied by one relation of flow.normalize_cmp (possibly none)"""
        out = []
        op = r[0]
        if _is(r[1], "discr"):
            # the discriminant of a value that was built as a known variant on this very path
            from .flow import VARIANT_DVAL
            x = r[1][1]
            while _is(x, "ref") or _is(x, "deref"):
                x = x[1]
            d = VARIANT_DVAL.get(x[1][1]) if (_is(x, "agg") and isinstance(x[1], tuple) and x[1] and x[1][0] == "adt") else None
            if d is not None:
                v = r[2]
                c = v[1] if _is(v, "const") else v
                bad = (op == "truth" and c != d) or (op == "notin" and d in v) or (op == "eq" and isinstance(c, int) and c != d) \
                    or (op == "ne" and isinstance(c, int) and c == d)
                return [({}, Fraction(-1))] if bad else []
        if op == "notin" and _is(r[1], "discr") and _call_name(r[1][1]) in ("checked_add", "checked_sub", "try_from") and r[2] in ((0,), (1,)):
            return self.relation(("truth", r[1], 1 - r[2][0]))           # Option has two variants
        if op == "le":
            out.append(self.diff(r[2], r[1]))
        elif op == "lt":
            out.append(self.diff(r[2], r[1], -1))
        elif op == "eq":
            out.append(self.diff(r[2], r[1]))
            out.append(self.diff(r[1], r[2]))
        elif op == "ne":
            a, b = strip_casts(r[1]), strip_casts(r[2])
            for x, y in ((a, b), (b, a)):
                if _is(y, "const") and y[1] == 0:
                    out.append(self.diff(x, y, -1))             # unsigned x != 0  =>  x >= 1
        elif op == "truth":
            e, v = strip_casts(r[1]), r[2]
            if _is(e, "ovf") and len(e) >= 4:
                a, b = e[2], e[3]
                if e[1].startswith("Add"):
                    if v == 0:
                        out.append(self.diff(("const", USIZE_MAX), ("bin", "Add", a, b)))
                    else:
                        out.append(self.diff(("bin", "Add", a, b), ("const", USIZE_MAX), -1))
                elif e[1].startswith("Sub"):
                    out.append(self.diff(a, b) if v == 0 else self.diff(b, a, -1))
            elif _is(e, "discr") and _call_name(e[1]) == "try_from" and e[1][2] and v in (0, 1):
                # Result<usize, _> of an unsigned conversion: Ok (0) iff the value fits
                x = e[1][2][0]
                out.append(self.diff(("const", USIZE_MAX), x) if v == 0 else self.diff(x, ("const", USIZE_MAX), -1))
            elif _is(e, "discr") and _call_name(e[1]) in ("checked_add", "checked_sub") and v in (0, 1):
                a, b = e[1][2][0], e[1][2][1]
                if _call_name(e[1]) == "checked_add":
                    if v == 1:
                        out.append(self.diff(("const", USIZE_MAX), ("bin", "Add", a, b)))
                    else:
                        out.append(self.diff(("bin", "Add", a, b), ("const", USIZE_MAX), -1))
                else:
                    out.append(self.diff(a, b) if v == 1 else self.diff(b, a, -1))
            elif _is(e, "bin") and e[1] in ("Lt", "Le", "Gt", "Ge", "Eq", "Ne"):
                from .flow import normalize_cmp
                out.extend(self.relation(normalize_cmp(e, ("eq", v))))
            elif isinstance(v, int) and not _is(e, "const"):
                i = self.atom(e)
                out.append(({i: Fraction(1)}, Fraction(-v)))
                out.append(({i: Fraction(-1)}, Fraction(v)))
            elif _is(e, "const") and isinstance(v, int) and int(e[1]) != v:
                out.append(({}, Fraction(-1)))                    # a constant switch taken the other way: impossible
        return out

    def nonneg(self):
        return [({i: Fraction(1)}, Fraction(0)) for i in range(len(self.names))]


def infeasible(cons, limit=4000):
    """Fourier-Motzkin over the rationals: True when the conjunction of  f >= 0  constraints has no solution"""
    cons = [(dict(f), Fraction(k)) for f, k in cons]
    while True:
        live = []
        for f, k in cons:
            f = {a: c for a, c in f.items() if c != 0}
            if not f:
                if k < 0:
                    return True
                continue
            live.append((f, k))
        cons = live
        if not cons:
            return False
        vars_ = {}
        for f, _ in cons:
            for a, c in f.items():
                p, n = vars_.get(a, (0, 0))
                vars_[a] = (p + (c > 0), n + (c < 0))
        # a variable bounded on one side only never contributes to a contradiction: drop its constraints
        one_sided = [a for a, (p, n) in vars_.items() if p == 0 or n == 0]
        if one_sided:
            s = set(one_sided)
            cons = [(f, k) for f, k in cons if not (s & set(f))]
            continue
        x = min(vars_, key=lambda a: vars_[a][0] * vars_[a][1])
        pos = [(f, k) for f, k in cons if f.get(x, 0) > 0]
        neg = [(f, k) for f, k in cons if f.get(x, 0) < 0]
        rest = [(f, k) for f, k in cons if f.get(x, 0) == 0]
        if len(rest) + len(pos) * len(neg) > limit:
            return False
        new = []
        seen = set()
        for fp, kp in pos:
            for fn_, kn in neg:
                cp, cn = fp[x], -fn_[x]
                f = {}
                for a, c in fp.items():
                    f[a] = f.get(a, 0) + c * cn
                for a, c in fn_.items():
                    f[a] = f.get(a, 0) + c * cp
                f = {a: c for a, c in f.items() if c != 0}
                k = kp * cn + kn * cp
                key = (tuple(sorted(f.items())), k)
                if key not in seen:
                    seen.add(key)
                    new.append((f, k))
        cons = rest + new


class State:
    """hypotheses + path relations; `refuted()` = the path cannot be taken; `entails(rel)` = every state satisfies rel"""

    def __init__(self, relations=(), lin=None, facts=None):
        self.lin = lin or Lin(facts)
        self.cons = []
        self.nes = []
        for r in relations:
            self.add(r)

    def add(self, r):
        self.cons.extend(self.lin.relation(r))
        if r[0] == "ne":
            self.nes.append(r)

    def all(self):
        return self.cons + self.lin.side + self.lin.nonneg()

    def _combos(self):
        """the case splits that define min / max / saturating_sub exactly (at most 5 atoms are split: 32 combinations)"""
        keys = [k for k in sorted(self.lin.cases) if self.lin.cases[k]][:5]
        combos = [[]]
        for k in keys:
            combos = [c + alt for c in combos for alt in self.lin.cases[k]]
        return combos

    def _empty(self, extra=()):
        base = self.cons + list(extra) + self.lin.side + self.lin.nonneg()
        if infeasible(base):
            return True
        combos = self._combos()
        if len(combos) <= 1:
            return False
        return all(infeasible(base + c) for c in combos)

    def refuted(self):
        if self._empty():
            return True
        # a != b on the path while the other constraints force a == b
        return any(self.entails(("eq", r[1], r[2])) for r in self.nes)

    def entails(self, r):
        """every negation disjunct of r is infeasible"""
        neg = {"le": [("lt", r[2], r[1])], "lt": [("le", r[2], r[1])],
               "eq": [("lt", r[1], r[2]), ("lt", r[2], r[1])]}.get(r[0])
        if neg is None:
            return False
        for n in neg:
            extra = self.lin.relation(n)
            if not self._empty(extra):
                return False
        return True
