#!/usr/bin/env python3
"""dev helper: run one rule module on an existing fact file: dev.py <facts.json> <rule> [-v]"""
import sys, importlib
sys.path.insert(0, '/verif')
from rules.facts import Facts
f = Facts(sys.argv[1])
m = importlib.import_module('rules.' + sys.argv[2])
r = m.run(f)
rs = r if isinstance(r, list) else [r]
for r in rs:
    for i in r.instances:
        if i['verdict'] != 'ok' or '-v' in sys.argv:
            print(i['verdict'], i['key'], '@', i['loc'], '--', i['how'])
    print(r.rule, len(r.instances), 'instances', len(r.violations), 'violations', r.floors, 'nontrivial', r.nontrivial)
