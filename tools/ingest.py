#!/usr/bin/env python3
"""Confirm and file one independently produced change:  tools/ingest.py <src_dir> <Cxx> <name> <round> "<origin note>"

Runs tools/seeded.py (scratch copy: demo passes without / fails with the patch, whole suite passes with it, feature
builds, then every quick check against the patched copy) and stores patch.diff, demo.rs, notes.md and a meta.json in
the uniform format under seeded/<Cxx>-<name>/.  If the demonstration does not fail in the debug profile it is re-run
with --release and, failing that too, the change is NOT kept."""
import json, os, subprocess, sys, tempfile, shutil
import os as _os
_os.environ["RUST_BACKTRACE"] = "0"    # demos with allocator oracles must not see the backtrace machinery allocate
HERE = os.path.dirname(os.path.dirname(os.path.abspath(__file__)))


def main():
    src, prop, name, rnd, origin = sys.argv[1:6]
    p = subprocess.run([sys.executable, os.path.join(HERE, "tools", "seeded.py"), src, prop, name], capture_output=True, text=True)
    out = p.stdout
    try:
        m = json.loads(out[out.index("{"):])
    except Exception:
        print("seeded.py failed:", out[-2000:], p.stderr[-2000:])
        return 2
    note = None
    if not m.get("demo_fails_with_patch"):
        # try --release on a scratch copy
        tmp = tempfile.mkdtemp(prefix="bytes-ingest-")
        try:
            base = os.path.join(tmp, "repo")
            shutil.copytree("/repo", base, ignore=shutil.ignore_patterns("target", ".git"))
            shutil.copy(os.path.join(src, "demo.rs"), os.path.join(base, "tests", "demo_seeded.rs"))
            env = dict(os.environ, CARGO_NET_OFFLINE="true", CARGO_TARGET_DIR=os.path.join(tmp, "target"))
            r0 = subprocess.run("cargo test --offline --release --test demo_seeded 2>&1 | tail -5", cwd=base, shell=True, capture_output=True, text=True, env=env)
            subprocess.run("patch -s -p1 --no-backup-if-mismatch < %s" % os.path.join(os.path.abspath(src), "patch.diff"), cwd=base, shell=True)
            r1 = subprocess.run("cargo test --offline --release --test demo_seeded 2>&1 | tail -15", cwd=base, shell=True, capture_output=True, text=True, env=env)
            ok0 = "test result: ok" in r0.stdout and "FAILED" not in r0.stdout
            bad1 = "FAILED" in r1.stdout or "panicked" in r1.stdout
            if ok0 and bad1:
                note = "the demonstration must run under --release (overflow checks off): it passes in the debug profile; confirmed here with cargo test --release (passes without the patch, fails with it); see notes.md"
                m["ran"].append("cargo test --offline --release --test demo_seeded (unpatched: ok; patched: FAILED)")
            for flags, what in ((" --no-default-features", "--no-default-features (no_std)"), (" --features extra-platforms", "--features extra-platforms (portable-atomic)"),
                                (" --release --no-default-features", "--release --no-default-features")):
                if note is not None:
                    break
                subprocess.run("patch -s -R -p1 --no-backup-if-mismatch < %s" % os.path.join(os.path.abspath(src), "patch.diff"), cwd=base, shell=True)
                c0 = subprocess.run("cargo test --offline%s --test demo_seeded 2>&1 | tail -8" % flags, cwd=base, shell=True, capture_output=True, text=True, env=env)
                subprocess.run("patch -s -p1 --no-backup-if-mismatch < %s" % os.path.join(os.path.abspath(src), "patch.diff"), cwd=base, shell=True)
                c1 = subprocess.run("cargo test --offline%s --test demo_seeded 2>&1 | tail -15" % flags, cwd=base, shell=True, capture_output=True, text=True, env=env)
                if "test result: ok" in c0.stdout and "FAILED" not in c0.stdout and ("FAILED" in c1.stdout or "panicked" in c1.stdout or "error: could not compile" in c1.stdout):
                    note = "the demonstration must run with %s: it passes in the default debug configuration; confirmed here (passes without the patch, fails with it); see notes.md" % what
                    m["ran"].append("cargo test --offline%s --test demo_seeded (unpatched: ok; patched: FAILED)" % flags)
            if note is None:
                # weak-memory / aliasing faults: only Miri sees them
                subprocess.run("git checkout -q -- . 2>/dev/null; patch -s -R -p1 --no-backup-if-mismatch < %s" % os.path.join(os.path.abspath(src), "patch.diff"), cwd=base, shell=True)
                menv = dict(env, MIRIFLAGS=os.environ.get("MIRIFLAGS", "-Zmiri-many-seeds=0..16"))
                cmd = "cargo +nightly miri test --offline --test demo_seeded 2>&1"
                m0 = subprocess.run(cmd, cwd=base, shell=True, capture_output=True, text=True, env=menv)
                subprocess.run("patch -s -p1 --no-backup-if-mismatch < %s" % os.path.join(os.path.abspath(src), "patch.diff"), cwd=base, shell=True)
                m1 = subprocess.run(cmd, cwd=base, shell=True, capture_output=True, text=True, env=menv)
                ok0 = m0.returncode == 0 and "Undefined Behavior" not in m0.stdout
                bad1 = m1.returncode != 0 and (("Undefined Behavior" in m1.stdout) or ("data race" in m1.stdout.lower()) or ("FAILED" in m1.stdout) or ("panicked" in m1.stdout))
                if ok0 and bad1:
                    note = ("the demonstration fails only under Miri (weak-memory / data-race detection): MIRIFLAGS=%s cargo +nightly miri test --test demo_seeded "
                            "passes without the patch and reports an error with it; see notes.md" % menv["MIRIFLAGS"])
                    m["ran"].append("cargo +nightly miri test --offline --test demo_seeded (unpatched: ok; patched: error reported)")
                else:
                    m["miri_unpatched"] = m0.stdout[-400:]
                    m["miri_patched"] = m1.stdout[-400:]
                    # a fault that exists with the portable-atomic feature set only
                    cmd = "cargo +nightly miri test --offline --features extra-platforms --test demo_seeded 2>&1"
                    subprocess.run("patch -s -R -p1 --no-backup-if-mismatch < %s" % os.path.join(os.path.abspath(src), "patch.diff"), cwd=base, shell=True)
                    m0 = subprocess.run(cmd, cwd=base, shell=True, capture_output=True, text=True, env=menv)
                    subprocess.run("patch -s -p1 --no-backup-if-mismatch < %s" % os.path.join(os.path.abspath(src), "patch.diff"), cwd=base, shell=True)
                    m1 = subprocess.run(cmd, cwd=base, shell=True, capture_output=True, text=True, env=menv)
                    ok0 = m0.returncode == 0 and "Undefined Behavior" not in m0.stdout
                    bad1 = m1.returncode != 0 and (("Undefined Behavior" in m1.stdout) or ("data race" in m1.stdout.lower()) or ("FAILED" in m1.stdout) or ("panicked" in m1.stdout))
                    if ok0 and bad1:
                        note = ("the demonstration fails only under Miri with --features extra-platforms: MIRIFLAGS=%s cargo +nightly miri test --features extra-platforms "
                                "--test demo_seeded passes without the patch and reports an error with it; see notes.md" % menv["MIRIFLAGS"])
                        m["ran"].append("cargo +nightly miri test --offline --features extra-platforms --test demo_seeded (unpatched: ok; patched: error reported)")
        finally:
            shutil.rmtree(tmp, ignore_errors=True)
    confirmed = {k: m.get(k) for k in ("patch_applies", "suite_passes_with_patch", "demo_passes_without_patch", "demo_fails_with_patch",
                                       "compiles --no-default-features", "compiles --features serde")}
    good = all(confirmed[k] for k in confirmed if k != "demo_fails_with_patch") and (confirmed["demo_fails_with_patch"] or note)
    meta = {"property": prop, "name": name, "round": int(rnd), "origin": origin, "confirmed": confirmed,
            "commands_run": m.get("ran", []) + ["./check --all --tier quick (BYTES_REPO=<patched scratch copy>)"],
            "needs_to_manifest": "see notes.md (trigger section)",
            "first_evaluation": {"detected": m.get("detected"), "by_properties": m.get("detected_by_properties"), "by_rules": m.get("detected_by_rules"),
                                 "detected_under_own_property": m.get("detected_under_own_property")}}
    if note:
        meta["demo_note"] = note
    print(json.dumps({"name": "%s-%s" % (prop, name), "confirmed": confirmed, "demo_note": note, "kept": bool(good), "first": meta["first_evaluation"],
                      "suite": m.get("suite_summary", "")[-300:] if not confirmed["suite_passes_with_patch"] else "ok",
                      "demo_out": m.get("demo_output_with_patch", "")[-300:] if not good else "", "miri": (m.get("miri_unpatched", ""), m.get("miri_patched", "")) if not good else ""}, indent=1))
    if not good:
        return 1
    dst = os.path.join(HERE, "seeded", "%s-%s" % (prop, name))
    os.makedirs(dst, exist_ok=True)
    for f in ("patch.diff", "demo.rs", "notes.md"):
        if os.path.exists(os.path.join(src, f)):
            shutil.copy(os.path.join(src, f), os.path.join(dst, f))
    json.dump(meta, open(os.path.join(dst, "meta.json"), "w"), indent=1)
    return 0


if __name__ == "__main__":
    sys.exit(main())
