#!/usr/bin/env python3
"""Seeded-fault controls (self-test of the rules): each control is a one-site edit of a scratch copy of
/repo's working tree that still compiles; the named rule must report a key containing `expect`.

  tools/controls.py [name ...]         run all / the named controls; exit 1 if an applied control is not reported
"""
import json, os, shutil, subprocess, sys, tempfile, importlib, concurrent.futures
HERE = os.path.dirname(os.path.dirname(os.path.abspath(__file__)))
sys.path.insert(0, HERE)
REPO = os.environ.get("BYTES_REPO", "/repo")


def load_check():
    import importlib.machinery, importlib.util
    loader = importlib.machinery.SourceFileLoader("check_mod", os.path.join(HERE, "check"))
    spec = importlib.util.spec_from_loader("check_mod", loader)
    m = importlib.util.module_from_spec(spec)
    loader.exec_module(m)
    return m


def run_control(c, chk):
    tmp = tempfile.mkdtemp(prefix="bytes-ctl-")
    try:
        dst = os.path.join(tmp, "repo")
        shutil.copytree(REPO, dst, ignore=shutil.ignore_patterns("target", ".git"))
        if c.get("patch"):
            # start from a recorded (benign) refactoring, then apply the one-site edits to it
            pr = subprocess.run(["patch", "-p1", "-s", "-d", dst, "-i", os.path.join(HERE, c["patch"])], capture_output=True, text=True)
            if pr.returncode != 0:
                return {"name": c["name"], "status": "skipped", "why": "patch %s does not apply" % c["patch"]}
        edits = c.get("edits") or ([{"file": c["file"], "old": c["old"], "new": c["new"]}] if "file" in c else [])
        for e in edits:
            p = os.path.join(dst, e["file"])
            s = open(p).read()
            if s.count(e["old"]) < 1:
                return {"name": c["name"], "status": "skipped", "why": "context not found in %s" % e["file"]}
            s = s.replace(e["old"], e["new"], 1)
            open(p, "w").write(s)
        chk.REPO = dst
        outdir = os.path.join(tmp, "facts")
        try:
            path = chk.export_facts(c.get("config", "K1"), outdir)
        except chk.CheckError as ex:
            return {"name": c["name"], "status": "error", "why": "mutant does not compile: %s" % str(ex)[-600:]}
        from rules.facts import Facts
        f = Facts(path)
        rs = []
        for rn in c["rule"].split(","):        # "r_a6,r_a8": several rules judge the same edit (silence controls)
            m = importlib.import_module("rules." + rn)
            r = m.run(f, c.get("prop")) if getattr(m, "WANTS_PROP", False) else m.run(f)
            rs += r if isinstance(r, list) else [r]
        keys = [v["key"] for x in rs for v in x.violations]
        if c.get("expect_silent"):
            # behaviour-preserving (or still property-satisfying) edit: the rule must stay quiet
            return {"name": c["name"], "status": "FALSE-ALARM" if keys else "silent", "keys": keys[:6], "rule": c["rule"]}
        hit = [k for k in keys if c["expect"] in k]
        return {"name": c["name"], "status": "fired" if hit else "MISSED", "keys": keys[:6], "rule": c["rule"]}
    finally:
        shutil.rmtree(tmp, ignore_errors=True)


def main():
    specs = json.load(open(os.path.join(HERE, "controls", "controls.json")))
    argv = sys.argv[1:]
    as_json = "--json" in argv
    argv = [a for a in argv if a != "--json"]
    rules = None
    if "--rules" in argv:
        i = argv.index("--rules")
        rules = set(argv[i + 1].split(","))
        argv = argv[:i] + argv[i + 2:]
    want = argv
    if want:
        specs = [c for c in specs if c["name"] in want]
    if rules is not None:
        specs = [c for c in specs if set(c["rule"].split(",")) & set(rules)]
    chk = load_check()
    chk.ensure_driver()
    results = []
    # sequential per process because chk.REPO is module state; use processes for parallelism
    if len(specs) > 1 and not os.environ.get("CONTROLS_SEQ"):
        with concurrent.futures.ProcessPoolExecutor(max_workers=8) as ex:
            futs = [ex.submit(run_one_proc, c) for c in specs]
            results = [f.result() for f in futs]
    else:
        results = [run_control(c, chk) for c in specs]
    if as_json:
        print(json.dumps(results))
        return 1 if any(r["status"] in ("MISSED", "error", "FALSE-ALARM") for r in results) else 0
    bad = 0
    for r in results:
        print("%-14s %-8s %s" % (r["name"], r["status"], r.get("why") or ", ".join(r.get("keys", []))[:200]))
        if r["status"] in ("MISSED", "error", "FALSE-ALARM"):
            bad += 1
    print("controls: %d applied+fired, %d silent (as required), %d skipped, %d missed/error/false-alarm" % (
        sum(1 for r in results if r["status"] == "fired"), sum(1 for r in results if r["status"] == "silent"),
        sum(1 for r in results if r["status"] == "skipped"), bad))
    return 1 if bad else 0


def run_one_proc(c):
    chk = load_check()
    return run_control(c, chk)


if __name__ == "__main__":
    sys.exit(main())
