#!/usr/bin/env python3
"""Evaluate a seeded change (patch.diff + demo.rs) independently produced for one property:

  tools/seeded.py <src_dir> <property> <name> [--keep]     src_dir holds patch.diff, demo.rs, notes.md

 1. confirm on a scratch copy of /repo (outside /repo and /verif, removed afterwards) that
    - the patch applies and the crate compiles (default, --no-default-features, --features serde),
    - the whole existing test suite passes with the patch,
    - the demonstration fails with the patch and passes without it;
 2. run every check of /verif (quick tier) against the patched copy and record which rules fire;
 3. with --keep: store patch.diff, demo.rs and meta.json under /verif/seeded/<property>-<name>/.
"""
import json, os, shutil, subprocess, sys, tempfile, time
import os as _os
_os.environ["RUST_BACKTRACE"] = "0"    # demos with allocator oracles must not see the backtrace machinery allocate
HERE = os.path.dirname(os.path.dirname(os.path.abspath(__file__)))
sys.path.insert(0, HERE)
REPO = "/repo"


def sh(cmd, cwd, env=None, timeout=1800):
    e = dict(os.environ, CARGO_NET_OFFLINE="true")
    if env:
        e.update(env)
    p = subprocess.run(cmd, cwd=cwd, shell=True, capture_output=True, text=True, env=e, timeout=timeout)
    return p.returncode, p.stdout + p.stderr


def main():
    src, prop, name = sys.argv[1], sys.argv[2], sys.argv[3]
    keep = "--keep" in sys.argv
    tmp = tempfile.mkdtemp(prefix="bytes-seeded-")
    meta = {"property": prop, "name": name, "ran": []}
    try:
        base = os.path.join(tmp, "repo")
        shutil.copytree(REPO, base, ignore=shutil.ignore_patterns("target", ".git"))
        td = os.path.join(tmp, "target")
        env = {"CARGO_TARGET_DIR": td}
        demo = os.path.join(src, "demo.rs")
        feat = ""
        if os.path.exists(demo) and ("serde" in open(demo).read()):
            feat = " --features serde"
        demo_name = "demo_seeded"
        # --- without the patch: demo must pass
        if os.path.exists(demo):
            shutil.copy(demo, os.path.join(base, "tests", demo_name + ".rs"))
            rc, out = sh("cargo test --offline%s --test %s 2>&1 | tail -15" % (feat, demo_name), base, env)
            meta["demo_passes_without_patch"] = ("test result: ok" in out) and ("FAILED" not in out)
            meta["ran"].append("cargo test --offline%s --test %s (unpatched)" % (feat, demo_name))
        # --- apply
        rc, out = sh("patch -p1 --no-backup-if-mismatch < %s" % os.path.join(os.path.abspath(src), "patch.diff"), base)
        meta["patch_applies"] = rc == 0
        if rc != 0:
            meta["error"] = out[-800:]
            print(json.dumps(meta, indent=1))
            return 1
        if os.path.exists(demo):
            rc, out = sh("cargo test --offline%s --test %s 2>&1 | tail -25" % (feat, demo_name), base, env)
            meta["demo_fails_with_patch"] = ("FAILED" in out) or ("panicked" in out) or ("error: test failed" in out) or rc != 0 and "test result: ok" not in out
            meta["demo_output_with_patch"] = out[-600:]
            meta["ran"].append("cargo test --offline%s --test %s (patched)" % (feat, demo_name))
            os.remove(os.path.join(base, "tests", demo_name + ".rs"))
        rc, out = sh("cargo test --workspace --no-fail-fast --offline 2>&1 | grep -E '^test result|FAILED|failed|error' | sort | uniq -c", base, env)
        meta["suite_passes_with_patch"] = ("FAILED" not in out) and ("failed" not in out.replace("0 failed", "")) and ("error" not in out) and ("test result: ok" in out)
        meta["suite_summary"] = out[-700:]
        meta["ran"].append("cargo test --workspace --no-fail-fast --offline (patched)")
        for extra in ("--no-default-features", "--features serde"):
            rc, out = sh("cargo check --offline --lib %s 2>&1 | tail -3" % extra, base, env)
            meta["compiles " + extra] = rc == 0 and "error" not in out
        # --- the checks
        fired = {}
        t0 = time.time()
        rc, out = sh("./check --all --tier quick", HERE, {"BYTES_REPO": base})
        meta["check_wall_s"] = round(time.time() - t0, 1)
        for line in out.splitlines():
            line = line.strip()
            if line.startswith("CHECK-ERROR"):
                fired.setdefault("CHECK-ERROR", []).append(line[:300])
            if "|" in line and "[K" in line and not line.startswith(("VIOLATION", "C0", "C1")):
                key = line.split(" [K", 1)[0]
                fired.setdefault(key.split("|", 1)[0], []).append(key)
        props = sorted(set(l.split("property=")[1].split()[0] for l in out.splitlines() if l.startswith("VIOLATION")))
        meta["detected_by_properties"] = props
        meta["detected_by_rules"] = {k: sorted(set(v))[:8] for k, v in fired.items()}
        meta["detected"] = bool(props) or ("CHECK-ERROR" in fired)
        meta["detected_under_own_property"] = prop in props
    finally:
        shutil.rmtree(tmp, ignore_errors=True)
    print(json.dumps(meta, indent=1))
    if keep:
        dst = os.path.join(HERE, "seeded", "%s-%s" % (prop, name))
        os.makedirs(dst, exist_ok=True)
        shutil.copy(os.path.join(src, "patch.diff"), os.path.join(dst, "patch.diff"))
        for f in ("demo.rs", "notes.md"):
            if os.path.exists(os.path.join(src, f)):
                shutil.copy(os.path.join(src, f), os.path.join(dst, f))
        meta["needs_to_manifest"] = "see notes.md"
        json.dump(meta, open(os.path.join(dst, "meta.json"), "w"), indent=1)
    return 0


if __name__ == "__main__":
    sys.exit(main())
