#!/usr/bin/env python3
"""Regenerate /verif/MANIFEST.json from rules/registry.py (keeps the manifest valid and current)."""
import json, os, sys
HERE = os.path.dirname(os.path.dirname(os.path.abspath(__file__)))
sys.path.insert(0, HERE)
from rules import registry

props = [json.loads(l) for l in open(os.path.join(HERE, "properties.jsonl"))]
claimed = sorted(registry.PROPERTY_RULES.keys())
checks = []
for pid in claimed:
    level = registry.LEVEL.get(pid, "other")
    checks.append({
        "property_id": pid,
        "quick_cmd": "./check %s --tier quick" % pid,
        "thorough_cmd": "./check %s --tier thorough" % pid,
        "evidence_file": "/verif/evidence/%s.json" % pid,
        "replay_cmd_template": "./check %s --replay {path}" % pid,
        "engine": "bytes-sa",
        "level_claimed": {
            "category": level,
            "text": registry.LEVEL_TEXT.get(pid, "Structural clause decided on every CFG path / every instance of the type-checked program: "
                                                  + registry.CLAUSES[pid] + ". A necessary condition of the property; value-level behaviour is not decided."),
            "design_ref": "DESIGN.md §6 " + pid,
        },
        "level_note": registry.LEVEL_NOTE.get(pid, "trusted: rustc type checking, trait resolution and MIR construction; documented std behaviour; "
                                                    "the rule tables in /verif/rules. Decides the named clause, not the whole behavioural property."),
        "technique": "static analysis: " + registry.TECHNIQUE.get(pid, "repository-specific MIR rules over rustc-resolved program (custom rustc_private driver)"),
    })
na = []
for p in props:
    if p["id"] in claimed:
        continue
    na.append({"property_id": p["id"], "reason": registry.NOT_APPLICABLE.get(p["id"], "no static rule built yet for this property; nothing is claimed")})
m = {
    "version": 1,
    "setup_cmd": "cd /verif/sa && CARGO_NET_OFFLINE=true cargo build --offline",
    "hooks": {"guard": "none (no instrumentation: the static analysis reads the unmodified sources)", "enable": "n/a",
              "baseline_off_cmd": "cd /repo && cargo test --workspace --no-fail-fast --offline", "source_commits": [], "add_only": True},
    "engines": [
        {"name": "bytes-sa", "path": "/verif/sa", "serves_properties": claimed,
         "kind_free_text": "rustc_private driver (nightly) injected via RUSTC_WORKSPACE_WRAPPER under cargo check; exports type-checked MIR with resolved callees, HIR impl/trait/ADT tables and expanded-AST format_args/attributes as JSON facts"},
        {"name": "rules", "path": "/verif/rules", "serves_properties": claimed,
         "kind_free_text": "python3 (stdlib) repository-specific rules over the exported facts: CFG, dominators, reaching definitions, provenance trees, guards, path enumeration"},
        {"name": "check", "path": "/verif/check", "serves_properties": claimed,
         "kind_free_text": "orchestrator: runs the driver over /repo's working tree per configuration, evaluates rules, applies known-findings.txt, writes evidence"},
    ],
    "checks": checks,
    "notes": "Static analysis only; see DESIGN.md. Genuine defects found by the rules and repaired by fix: commits in /repo are listed in known-findings.txt.",
    "not_applicable": sorted(na, key=lambda x: x["property_id"]),
}
json.dump(m, open(os.path.join(HERE, "MANIFEST.json"), "w"), indent=1)
print("claimed:", claimed, "not_applicable:", [x["property_id"] for x in m["not_applicable"]])
