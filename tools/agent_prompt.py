#!/usr/bin/env python3
"""Print the brief handed to an independent sub-agent that is to produce property-breaking changes.
The brief contains the property text (from properties.jsonl), the scratch worktree and the titles of
changes of earlier rounds (sites to avoid) - nothing about the checks in /verif.

  tools/agent_prompt.py <Cxx> <worktree> <outdir> [flavour]
"""
import json, os, sys, glob
HERE = os.path.dirname(os.path.dirname(os.path.abspath(__file__)))
FLAVOURS = {
 "plain": "Plain, realistic faults: the kind of slip a maintainer makes in a routine PR (an off-by-one in a bound, the wrong field or operand, a forgotten branch, a mis-ordered pair of statements, a wrong constant, a condition that is too weak or too strong).",
 "twosite": "Faults made of TWO cooperating edits in different functions (or different branches) that each look harmless and locally correct alone - e.g. a helper whose contract is subtly changed together with a caller that relied on the old contract, an invariant relaxed at one site and exploited at another, a field whose meaning shifts by a constant at its writer but not at one of its readers. Removing either edit alone should restore correct behaviour or at least make the change look different.",
 "boundary": "Faults that manifest ONLY at a boundary or extreme argument / state and are correct everywhere else: 0, 1, len-1, len, capacity, capacity+1, usize::MAX, isize::MAX+k, empty buffers or slices, exactly-full buffers, zero-length chunks in the middle of a sequence, a cursor position past the end, an offset that is exactly equal to a length, nbytes == 0 or 8, the last representable value of a bit field. Typical shapes: `<` vs `<=`, a guard that forgets the equal case, a fast path for the empty / full case that skips a step the general path performs, saturating vs wrapping vs checked arithmetic at the extreme.",
 "config": "Faults that manifest ONLY in a particular build configuration while the default debug configuration used by the test suite stays correct: `--release` (no debug assertions, no overflow checks: something that a debug_assert!, an overflow check or a debug-only branch was silently relied upon for), `--no-default-features` (no_std: cfg(not(feature = \"std\")) twins such as abort(), missing chunks_vectored / Reader / Writer, core vs std paths), `--features extra-platforms` (portable-atomic types instead of core atomics), `--features serde`, or `RUSTFLAGS=--cfg loom`. The change may touch a cfg-gated twin, a cfg!(..) branch, a #[cfg] attribute, or code whose behaviour differs by profile. The demonstration must fail under the exact command of that configuration (e.g. `cargo test --release --test demo_seeded`, `cargo test --no-default-features --test demo_seeded`) and pass there on the unmodified crate; say which command.",
 "race": "Faults that need a specific interleaving of two or three threads to manifest (never visible single-threaded): a check-then-act window, a decision taken on a stale value, an update that is not a single atomic read-modify-write, a release that happens before the last use, a winner/loser of a compare-exchange handled asymmetrically, a memory ordering that is too weak for what the code does next. Prefer demonstrations that force the interleaving deterministically (e.g. a global allocator or a Buf/AsRef impl used as a schedule point, barriers) and fail under plain `cargo test`; if only Miri can see it, say so and give the command.",
 "sequence": "Faults that need a SEQUENCE of at least three API operations on one or more handles to manifest - state that is left subtly wrong by one operation (a stale field, an off-by-some bookkeeping value, a representation switched too early or too late, a reference count or offset that is only wrong after a particular earlier step) and only becomes observable two or more operations later, while each single operation tested in isolation (as the existing tests do) looks right.",
 "representation": "Faults that affect exactly ONE of the internal representations and leave the others correct: static (`from_static`), owner-backed (`from_owner`), Vec-backed unshared with an even buffer address, Vec-backed unshared with an odd buffer address, shared/promoted (`Shared` control block in bytes.rs), a `BytesMut` in the inline-Vec form (KIND_VEC, with or without a front offset), a `BytesMut` in the shared form (KIND_ARC), a `Bytes` frozen from a shared-form `BytesMut` (bytes_mut.rs SHARED_VTABLE); or, for the Buf/BufMut properties, exactly one of the implementors (`&[u8]`, `Bytes`, `BytesMut`, `io::Cursor`, `VecDeque<u8>`, `Chain`, `Take`, `&mut B`, `Box<B>`, `Vec<u8>`, `&mut [u8]`, `&mut [MaybeUninit<u8>]`, `Limit`). The tests exercise the common representation; pick the one they do not.",
 "surface": "Faults in the LESS-TRAVELLED API surface that earlier rounds left alone: rarely used inherent methods and conversions (e.g. `unsplit`, `try_reclaim`, `try_into_mut`, `from_owner`, `split`, `spare_capacity_mut`, `zeroed`, `resize`, `extend_from_slice`, `Bytes::is_unique`, `slice_ref`, `into_iter`), trait impls for niche types (`Extend`, `FromIterator`, `IntoIterator`, `From<..>` between handle / Vec / Box / String types, `Borrow`, `fmt::Write`, `io::Read` / `io::Write` / `BufRead` adapters `Reader` / `Writer`, `BufMut for &mut [MaybeUninit<u8>]`, `Buf for VecDeque<u8>` / `Cursor` / `Box<T>` / `&mut T` forwarding impls, `chunks_vectored`, `get_*_ne` / `put_*_ne`, `get_uint` / `get_int` / floats, `put_slice` / `put_bytes` / `put` overrides). Pick functions the test suite barely exercises.",
 "errorpath": "Faults on the ERROR / PANIC / UNWIND paths: what state is left behind when an operation panics, returns Err, or runs user code that panics (a `Buf`/`BufMut`/`AsRef`/`Iterator`/`Drop` impl supplied by the user) - a field updated before the check that can fail, a guard or drop that no longer runs on the unwinding path, an `Err` returned after part of the work was done, storage that is leaked or freed twice only when the call unwinds, a `try_*` that consumed input before failing, capacity-overflow requests, a handle left in a torn state after `catch_unwind`. The success paths must stay correct.",
 "fastpath": "Faults introduced by a plausible PERFORMANCE optimisation: a new fast path / early return / cached value / skipped step / weaker-but-cheaper operation (a relaxed load, a skipped reference-count round trip, a reused allocation, a copy elided, a check hoisted out of a loop) that is valid for most states but wrong for a particular state, representation, interleaving or configuration.",
 "timeofcheck": "TIME-OF-CHECK faults: a check, measurement or pointer/length taken at one moment is relied upon after the state it describes has changed - a bounds check followed by an operation that changes the length/capacity/position before the checked value is used; a value read from a field or a cursor (`len`, `cap`, `remaining()`, `chunk().len()`, `as_ptr()`) cached in a local and reused after a call that moves, grows, splits or advances; two statements reordered so that a guard now protects the wrong state; a loop that computes its bound once although the body changes what the bound was computed from. Every individual statement must look reasonable on its own.",
 "aliasing": "ALIASING faults: two handles, or a handle and a raw pointer / rebuilt `Vec` / control block, refer to the same storage and an update through one of them is not reflected in (or wrongly reflected in) the other - a field copied instead of shared, a clone that shares what it must copy or copies what it must share, a `Vec` rebuilt from raw parts that is dropped / grown while the handle still points into it, a control block field (`vec` length or capacity, original capacity, reference count) that drifts from what the handles assume, ownership handed over twice or not at all on one particular path.",
 "arith": "ARITHMETIC faults: wrong width, signedness, rounding, saturation or overflow behaviour in the integer arithmetic the crate does on lengths, capacities, offsets, limits, shift amounts and encoded integers - `usize`/`u64`/`isize` conversions that truncate or sign-extend, `saturating_*` where exactness is needed (or the reverse), `checked_*` whose `None` is mapped to the wrong thing, an off-by-a-power-of-two in a shift or mask, `min`/`max` swapped, a subtraction whose operands can cross over for one representation only. The result must still pass every existing test.",
 "disguised": "Faults disguised as cleanups: a helper extracted and shared, control flow reshaped, a std API swapped in, a de-duplication - with the behaviour change hidden inside what reads like a refactoring.",
}
def main():
    pid, wt, out = sys.argv[1:4]
    flavour = sys.argv[4] if len(sys.argv) > 4 else "plain"
    prop = [json.loads(l) for l in open(os.path.join(HERE, "properties.jsonl")) if json.loads(l)["id"] == pid][0]
    used = []
    for d in sorted(glob.glob(os.path.join(HERE, "seeded", pid + "-*"))):
        n = os.path.join(d, "notes.md")
        if os.path.exists(n):
            first = open(n).readline().strip().lstrip("# ").split("—", 1)[-1].split(" - ", 1)[-1].strip()
            used.append(first)
    print(f"""You are helping to evaluate a verification effort for the Rust crate tokio-rs/bytes (v1.10.1 plus a few bug fixes). Your job is to play the adversary: write changes to the crate that BREAK one stated property while still compiling and passing the crate's whole existing test suite.

Your private scratch git worktree of the crate is {wt} (work only there; never touch /repo or /verif, and do not read anything under /verif). The sandbox has no network: always use `CARGO_NET_OFFLINE=true cargo ... --offline`. The existing test suite is run with: `cd {wt} && CARGO_NET_OFFLINE=true cargo test --workspace --no-fail-fast --offline`.

THE PROPERTY ({pid}): {prop['title']}
Statement: {prop['statement']}
Quantified: {prop['quantifier']['text']}
Why the existing tests cannot settle it: {prop['why_tests_cant']}
Code it is anchored in: {json.dumps(prop['anchors'].get('mechanism'), indent=1)}

WHAT I WANT: two different changes (call them A and B), each a small patch to src/ (typically 1-25 changed lines) such that
 1. the crate still compiles with default features, with `--no-default-features`, and with `--features serde`;
 2. the ENTIRE existing test suite still passes with the change applied (run it; do not assume);
 3. the property above is genuinely violated for some input / operation sequence / schedule / configuration - a real behavioural defect a user could hit, not a style change;
 4. it needs something specific to manifest (a particular interleaving, a multi-step sequence of operations, an unusual input or boundary argument, a particular representation or build configuration, or two cooperating sites that each look fine alone) - NOT something ordinary use would expose at once;
 5. you provide a demonstration: a self-contained integration test file (placed as tests/demo_seeded.rs in the worktree while you test it) that FAILS with the change applied and PASSES on the unmodified crate. If the violation is only observable under Miri or in --release, say so and give the exact command; prefer demos that fail under plain `cargo test`.

Flavour for this round: {FLAVOURS[flavour]}

Changes of earlier rounds used these sites/ideas for this property - pick DIFFERENT sites and mechanisms:
""" + "\n".join(" - " + u for u in used) + f"""

The two changes must be independent of each other (different functions / mechanisms). Produce A, verify it, save it, then `git -C {wt} checkout -- . && git -C {wt} clean -fdq -e target` and produce B from a clean tree.

DELIVERABLES - write these files (create the directories):
 {out}/A/patch.diff   (output of `git -C {wt} diff -- src` for change A; src only, not the demo)
 {out}/A/demo.rs      (the demonstration test file)
 {out}/A/notes.md     (first line: `# {pid} / A — <one-line title>`; then: the change, which clause of the property breaks, what is needed for it to manifest, the exact commands you ran and their outcomes)
 and the same under {out}/B/.
Before finishing, make sure for each change you really ran: the full suite with the patch (passes), the demo with the patch (fails), the demo without the patch (passes), and the two extra feature builds. Leave the worktree clean (`git checkout -- . ; git clean -fdq -e target`) when done. Your final message should just summarise the two changes in a few lines each.""")
main()
