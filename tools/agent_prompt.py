#!/usr/bin/env python3
"""Print the brief handed to an independent sub-agent that is to produce property-breaking changes.
The brief contains the property text (from properties.jsonl), the scratch worktree and the titles of
changes of earlier rounds (sites to avoid) - nothing about the checks in /verif.

  tools/agent_prompt.py <Cxx> <worktree> <outdir> [flavour]
"""
import json, os, sys, glob
HERE = os.path.dirname(os.path.dirname(os.path.abspath(__file__)))
FLAVOURS = {
 "plain": "Plain, realistic faults: the kind of slip a maintainer makes in a routine PR (an off-by-one in a bound, the wrong field or operand, a forgotten branch, a mis-ordered pair of statements, a wrong constant, a condition that is too weak or too strong).",
 "twosite": "Faults made of TWO cooperating edits in different functions (or different branches) that each look harmless and locally correct alone - e.g. a helper whose contract is subtly changed together with a caller that relied on the old contract, an invariant relaxed at one site and exploited at another, a field whose meaning shifts by a constant at its writer but not at one of its readers. Removing either edit alone should restore correct behaviour or at least make the change look different.",
 "boundary": "Faults that manifest ONLY at a boundary or extreme argument / state and are correct everywhere else: 0, 1, len-1, len, capacity, capacity+1, usize::MAX, isize::MAX+k, empty buffers or slices, exactly-full buffers, zero-length chunks in the middle of a sequence, a cursor position past the end, an offset that is exactly equal to a length, nbytes == 0 or 8, the last representable value of a bit field. Typical shapes: `<` vs `<=`, a guard that forgets the equal case, a fast path for the empty / full case that skips a step the general path performs, saturating vs wrapping vs checked arithmetic at the extreme.",
 "config": "Faults that manifest ONLY in a particular build configuration while the default debug configuration used by the test suite stays correct: `--release` (no debug assertions, no overflow checks: something that a debug_assert!, an overflow check or a debug-only branch was silently relied upon for), `--no-default-features` (no_std: cfg(not(feature = \"std\")) twins such as abort(), missing chunks_vectored / Reader / Writer, core vs std paths), `--features extra-platforms` (portable-atomic types instead of core atomics), `--features serde`, or `RUSTFLAGS=--cfg loom`. The change may touch a cfg-gated twin, a cfg!(..) branch, a #[cfg] attribute, or code whose behaviour differs by profile. The demonstration must fail under the exact command of that configuration (e.g. `cargo test --release --test demo_seeded`, `cargo test --no-default-features --test demo_seeded`) and pass there on the unmodified crate; say which command.",
 "race": "Faults that need a specific interleaving of two or three threads to manifest (never visible single-threaded): a check-then-act window, a decision taken on a stale value, an update that is not a single atomic read-modify-write, a release that happens before the last use, a winner/loser of a compare-exchange handled asymmetrically, a memory ordering that is too weak for what the code does next. Prefer demonstrations that force the interleaving deterministically (e.g. a global allocator or a Buf/AsRef impl used as a schedule point, barriers) and fail under plain `cargo test`; if only Miri can see it, say so and give the command.",
 "disguised": "Faults disguised as cleanups: a helper extracted and shared, control flow reshaped, a std API swapped in, a de-duplication - with the behaviour change hidden inside what reads like a refactoring.",
}
def main():
    pid, wt, out = sys.argv[1:4]
    flavour = sys.argv[4] if len(sys.argv) > 4 else "plain"
    prop = [json.loads(l) for l in open(os.path.join(HERE, "properties.jsonl")) if json.loads(l)["id"] == pid][0]
    used = []
    for d in sorted(glob.glob(os.path.join(HERE, "seeded", pid + "-*"))):
        n = os.path.join(d, "notes.md")
        if os.path.exists(n):
            first = open(n).readline().strip().lstrip("# ").split("—", 1)[-1].split(" - ", 1)[-1].strip()
            used.append(first)
    print(f"""You are helping to evaluate a verification effort for the Rust crate tokio-rs/bytes (v1.10.1 plus a few bug fixes). Your job is to play the adversary: write changes to the crate that BREAK one stated property while still compiling and passing the crate's whole existing test suite.

Your private scratch git worktree of the crate is {wt} (work only there; never touch /repo or /verif, and do not read anything under /verif). The sandbox has no network: always use `CARGO_NET_OFFLINE=true cargo ... --offline`. The existing test suite is run with: `cd {wt} && CARGO_NET_OFFLINE=true cargo test --workspace --no-fail-fast --offline`.

THE PROPERTY ({pid}): {prop['title']}
Statement: {prop['statement']}
Quantified: {prop['quantifier']['text']}
Why the existing tests cannot settle it: {prop['why_tests_cant']}
Code it is anchored in: {json.dumps(prop['anchors'].get('mechanism'), indent=1)}

WHAT I WANT: two different changes (call them A and B), each a small patch to src/ (typically 1-25 changed lines) such that
 1. the crate still compiles with default features, with `--no-default-features`, and with `--features serde`;
 2. the ENTIRE existing test suite still passes with the change applied (run it; do not assume);
 3. the property above is genuinely violated for some input / operation sequence / schedule / configuration - a real behavioural defect a user could hit, not a style change;
 4. it needs something specific to manifest (a particular interleaving, a multi-step sequence of operations, an unusual input or boundary argument, a particular representation or build configuration, or two cooperating sites that each look fine alone) - NOT something ordinary use would expose at once;
 5. you provide a demonstration: a self-contained integration test file (placed as tests/demo_seeded.rs in the worktree while you test it) that FAILS with the change applied and PASSES on the unmodified crate. If the violation is only observable under Miri or in --release, say so and give the exact command; prefer demos that fail under plain `cargo test`.

Flavour for this round: {FLAVOURS[flavour]}

Changes of earlier rounds used these sites/ideas for this property - pick DIFFERENT sites and mechanisms:
""" + "\n".join(" - " + u for u in used) + f"""

The two changes must be independent of each other (different functions / mechanisms). Produce A, verify it, save it, then `git -C {wt} checkout -- . && git -C {wt} clean -fdq -e target` and produce B from a clean tree.

DELIVERABLES - write these files (create the directories):
 {out}/A/patch.diff   (output of `git -C {wt} diff -- src` for change A; src only, not the demo)
 {out}/A/demo.rs      (the demonstration test file)
 {out}/A/notes.md     (first line: `# {pid} / A — <one-line title>`; then: the change, which clause of the property breaks, what is needed for it to manifest, the exact commands you ran and their outcomes)
 and the same under {out}/B/.
Before finishing, make sure for each change you really ran: the full suite with the patch (passes), the demo with the patch (fails), the demo without the patch (passes), and the two extra feature builds. Leave the worktree clean (`git checkout -- . ; git clean -fdq -e target`) when done. Your final message should just summarise the two changes in a few lines each.""")
main()
