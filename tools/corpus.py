#!/usr/bin/env python3
"""Re-run the checks over the two corpora kept in /verif:

  seeded/<Cxx-name>/patch.diff   property-breaking changes written by independent sub-agents  -> must be reported,
                                 ideally under their own property
  benign/<name>/patch.diff       behaviour-preserving refactors written by independent sub-agents -> must stay silent

  tools/corpus.py [--seeded] [--benign] [--update] [--tier quick] [names...]

Each patch is applied to a scratch copy of /repo's working tree (outside /repo and /verif, removed afterwards) and
`./check --all` is run against it with BYTES_REPO.  --update records the outcome as final_evaluation in meta.json.
Exit 1 if a seeded change goes unreported or a benign one is reported.
"""
import json, os, shutil, subprocess, sys, tempfile, concurrent.futures
HERE = os.path.dirname(os.path.dirname(os.path.abspath(__file__)))
REPO = os.environ.get("BYTES_REPO", "/repo")


def run_one(kind, name, tier):
    d = os.path.join(HERE, kind, name)
    tmp = tempfile.mkdtemp(prefix="bytes-corpus-")
    try:
        dst = os.path.join(tmp, "repo")
        shutil.copytree(REPO, dst, ignore=shutil.ignore_patterns("target", ".git"))
        p = subprocess.run("patch -s -p1 --no-backup-if-mismatch < %s" % os.path.join(d, "patch.diff"), cwd=dst, shell=True, capture_output=True, text=True)
        if p.returncode != 0:
            return {"name": name, "kind": kind, "status": "patch-failed", "out": (p.stdout + p.stderr)[-300:]}
        env = dict(os.environ, BYTES_REPO=dst, CARGO_NET_OFFLINE="true")
        p = subprocess.run([os.path.join(HERE, "check"), "--all", "--tier", tier, "--no-evidence"], cwd=HERE, capture_output=True, text=True, env=env)
        out = p.stdout + p.stderr
        props = sorted(set(l.split("property=")[1].split()[0] for l in out.splitlines() if l.startswith("VIOLATION")))
        keys = sorted(set(l.strip().split(" [K", 1)[0] for l in out.splitlines() if "|" in l and " [K" in l and not l.startswith(("VIOLATION", "C0", "C1"))))
        errs = [l[:300] for l in out.splitlines() if l.startswith("CHECK-ERROR")]
        if p.returncode not in (0, 1) or "Traceback (most recent call last)" in out:
            errs.append("check crashed (exit %d): %s" % (p.returncode, out.strip().splitlines()[-1][:200] if out.strip() else ""))
        return {"name": name, "kind": kind, "status": "ran", "props": props, "keys": keys, "errors": errs}
    finally:
        shutil.rmtree(tmp, ignore_errors=True)


def main():
    argv = sys.argv[1:]
    tier = "quick"
    if "--tier" in argv:
        tier = argv[argv.index("--tier") + 1]
        del argv[argv.index("--tier"):argv.index("--tier") + 2]
    update = "--update" in argv
    kinds = [k for k in ("seeded", "benign") if "--" + k in argv] or ["seeded", "benign"]
    names = [a for a in argv if not a.startswith("--")]
    jobs = []
    for k in kinds:
        for n in sorted(os.listdir(os.path.join(HERE, k))):
            if os.path.exists(os.path.join(HERE, k, n, "patch.diff")) and (not names or n in names):
                jobs.append((k, n))
    bad = 0
    with concurrent.futures.ThreadPoolExecutor(max_workers=8) as ex:
        for r in ex.map(lambda j: run_one(j[0], j[1], tier), jobs):
            if r["status"] != "ran":
                print("%-7s %-10s %s %s" % (r["kind"], r["name"], r["status"], r.get("out", "")))
                bad += 1
                continue
            if r["kind"] == "seeded":
                own = r["name"].split("-")[0]
                det = bool(r["props"]) or bool(r["errors"])
                under = own in r["props"]
                print("seeded  %-8s detected=%s own=%s props=%s%s" % (r["name"], det, under, r["props"], " CHECK-ERROR" if r["errors"] else ""))
                if not det or r["errors"]:
                    bad += 1
                if update:
                    mp = os.path.join(HERE, "seeded", r["name"], "meta.json")
                    m = json.load(open(mp))
                    m["final_evaluation"] = {"detected": det, "by_properties": r["props"], "violation_keys": r["keys"][:8], "detected_under_own_property": under}
                    if r["errors"]:
                        m["final_evaluation"]["check_errors"] = r["errors"][:3]
                    json.dump(m, open(mp, "w"), indent=1)
            else:
                quiet = not r["props"] and not r["errors"]
                print("benign  %-8s silent=%s %s %s" % (r["name"], quiet, r["keys"][:4], r["errors"][:2]))
                if not quiet:
                    bad += 1
    print("corpus: %d run, %d unexpected" % (len(jobs), bad))
    return 1 if bad else 0


if __name__ == "__main__":
    sys.exit(main())
