#!/usr/bin/env python3
"""Brief for an independent sub-agent that is to produce behaviour-PRESERVING refactorings (false-alarm corpus).
  tools/agent_prompt_benign.py <id> <worktree> <outdir> "<area description>"
Contains nothing about the checks in /verif."""
import sys
def main():
    aid, wt, out, area = sys.argv[1:5]
    print(f"""You are helping to evaluate a verification effort for the Rust crate tokio-rs/bytes (v1.10.1 plus a few bug fixes). Your job: write three strictly BEHAVIOUR-PRESERVING refactorings of the crate - the kind of tidy-up, restructuring or modernisation PR a maintainer would merge - so that we can check that our analysers do not raise false alarms on harmless edits.

Your private scratch git worktree of the crate is {wt} (work only there; never use `git stash` - the stash is shared between all worktrees of the repository, save diffs to files instead; never touch /repo or /verif, and do not read anything under /verif). The sandbox has no network: always use `CARGO_NET_OFFLINE=true cargo ... --offline`. The test suite: `cd {wt} && CARGO_NET_OFFLINE=true cargo test --workspace --no-fail-fast --offline`.

AREA TO WORK IN: {area}

WHAT I WANT: three different refactorings (r1, r2, r3), each 10-60 changed lines in src/, each of which
 1. compiles with default features, `--no-default-features` and `--features serde`, and passes the entire test suite;
 2. preserves observable behaviour EXACTLY for every input, representation, interleaving and build profile: same results, same panics (and panic-vs-no-panic in both debug and release), same memory-ordering strength at every atomic operation, same allocation / copy behaviour, same pointer values, no new arithmetic that could overflow where the old code could not. If in doubt, leave it out - a refactoring that subtly changes behaviour is worse than useless to us. Argue equivalence explicitly in your notes, case by case;
 3. is a REAL restructuring, not a rename or a comment change: e.g. extract a helper (function, method, closure, small private type) and use it from two places; inline a helper; turn nested if/else into early returns or a `match` (or the reverse); replace a hand-written construct by an equivalent std API (or the reverse); reorder independent statements; hoist a common sub-expression into a named local; rewrite a comparison in an equivalent form (`a - b >= c` only where provably no wrap-around changes!); merge or split functions; convert between `if let`/`match`/combinators; move a guard into a helper that returns a bool or an Option.
Make the three as different from each other in technique as you can, and prefer edits that touch the delicate logic of the area (not just its periphery).

DELIVERABLES - write these files (create the directories):
 {out}/r1/patch.diff  (output of `git -C {wt} diff -- src` for r1 alone)
 {out}/r1/notes.md    (first line `# {aid}-r1: <title>`; what changed; the equivalence argument; the commands you ran and their results)
 and likewise r2, r3. Produce each from a clean tree (`git -C {wt} checkout -- . && git -C {wt} clean -fdq -e target` in between) so the three patches are independent. Leave the worktree clean at the end. Your final message should summarise the three refactorings in two lines each.""")
main()
