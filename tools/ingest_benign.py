#!/usr/bin/env python3
"""Confirm and file one behaviour-preserving refactoring:  tools/ingest_benign.py <src_dir> <name>
(scratch copy: patch applies, the whole suite passes, the three feature builds compile) -> benign/<name>/{patch.diff,notes.md},
then runs every quick check against the patched copy and prints what (if anything) fired."""
import json, os, shutil, subprocess, sys, tempfile
import os as _os
_os.environ["RUST_BACKTRACE"] = "0"    # demos with allocator oracles must not see the backtrace machinery allocate
HERE = os.path.dirname(os.path.dirname(os.path.abspath(__file__)))


def sh(cmd, cwd, env):
    p = subprocess.run(cmd, cwd=cwd, shell=True, capture_output=True, text=True, env=env)
    return p.returncode, p.stdout + p.stderr


def main():
    src, name = sys.argv[1:3]
    tmp = tempfile.mkdtemp(prefix="bytes-benign-")
    try:
        base = os.path.join(tmp, "repo")
        shutil.copytree("/repo", base, ignore=shutil.ignore_patterns("target", ".git"))
        env = dict(os.environ, CARGO_NET_OFFLINE="true", CARGO_TARGET_DIR=os.path.join(tmp, "target"))
        rc, out = sh("patch -p1 --no-backup-if-mismatch < %s" % os.path.join(os.path.abspath(src), "patch.diff"), base, env)
        if rc != 0:
            print(json.dumps({"name": name, "kept": False, "why": "patch does not apply", "out": out[-400:]}))
            return 1
        rc, out = sh("cargo test --workspace --no-fail-fast --offline 2>&1 | grep -E '^test result|FAILED|failed|error' | sort | uniq -c", base, env)
        suite = ("FAILED" not in out) and ("failed" not in out.replace("0 failed", "")) and ("error" not in out) and ("test result: ok" in out)
        builds = True
        for extra in ("--no-default-features", "--features serde"):
            rc, o2 = sh("cargo check --offline --lib %s 2>&1 | tail -3" % extra, base, env)
            builds = builds and rc == 0 and "error" not in o2
        if not (suite and builds):
            print(json.dumps({"name": name, "kept": False, "why": "suite/builds", "suite": out[-500:]}))
            return 1
        e2 = dict(os.environ, BYTES_REPO=base, CARGO_NET_OFFLINE="true")
        p = subprocess.run([os.path.join(HERE, "check"), "--all", "--tier", "quick", "--no-evidence"], cwd=HERE, capture_output=True, text=True, env=e2)
        o = p.stdout + p.stderr
        keys = sorted(set(l.strip().split(" [K", 1)[0] for l in o.splitlines() if "|" in l and " [K" in l and not l.startswith(("VIOLATION", "C0", "C1"))))
        errs = [l[:200] for l in o.splitlines() if l.startswith("CHECK-ERROR")]
    finally:
        shutil.rmtree(tmp, ignore_errors=True)
    dst = os.path.join(HERE, "benign", name)
    os.makedirs(dst, exist_ok=True)
    for f in ("patch.diff", "notes.md"):
        if os.path.exists(os.path.join(src, f)):
            shutil.copy(os.path.join(src, f), os.path.join(dst, f))
    print(json.dumps({"name": name, "kept": True, "first_run_silent": not keys and not errs, "keys": keys, "errors": errs}, indent=1))
    return 0


if __name__ == "__main__":
    sys.exit(main())
